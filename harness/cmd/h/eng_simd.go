package main

// Engine simd (C15): the real AVX and portable kernels (SSE only inside child processes: its
// aligned loads fault on ordinary Go slices) for Euclidean, Manhattan and cosine distance on
//   - every length 1..L (L = 130 quick, 4096 thorough, every residue of the unrolling),
//   - start offsets 0..7 floats inside a larger *populated* buffer (so any read past the vector's
//     length picks up non-zero data), unequal offsets for the two operands,
//   - magnitude classes: ordinary, zeros, subnormals, tiny (squares underflow), huge (squares overflow).
// The Lean lane model at Float32 must reproduce the AVX and the portable results bit for bit.
// Oracle: AVX vs portable within a forward error bound; symmetry; non-negativity; zero on self;
// and (child process) vectors placed against an inaccessible page: a read past the end faults.

import (
	"sync"
	"bytes"
	"fmt"
	"math"
	"os"
	"os/exec"
	"reflect"
	"strings"
	"syscall"
	"time"
	"unsafe"

	"github.com/marekgalovic/anndb/index/space"
	amath "github.com/marekgalovic/anndb/math"
)

func init() {
	register("simd", runSimd)
	childHandlers["guard"] = childGuard
	childHandlers["sse"] = childSse
	childHandlers["align"] = childAlign
}

func classValue(r *Rng, class int) float32 {
	switch class {
	case 1:
		return 0
	case 2: // subnormal
		return math.Float32frombits(uint32(1 + r.Intn(1<<20)))
	case 3: // tiny: squares underflow to zero / subnormal
		return float32(r.Norm()) * 1e-25
	case 4: // huge: squares overflow float32
		return float32(r.Norm()) * 1e25
	case 5: // mixed signs, integers (exact arithmetic)
		return float32(r.Intn(41) - 20)
	case 6: // small but far inside float32's range: squares ~1e-6, products of norms ~1e-9
		return float32(r.Norm()) * 1e-3
	}
	return float32(r.Norm())
}

func bitsList(v []float32) string {
	var sb strings.Builder
	for i, x := range v {
		if i > 0 {
			sb.WriteByte(',')
		}
		fmt.Fprint(&sb, math.Float32bits(x))
	}
	return sb.String()
}

func ulpDiff(a, b float32) float64 {
	if a == b {
		return 0
	}
	return math.Abs(float64(a)-float64(b)) / math.Max(math.Abs(float64(b)), 1e-30)
}

func runSimd(c *Ctx) {
	c.Stats.Rule = "AVX and portable kernels x {euclidean, manhattan, cosine} on every length 1..L x operand offsets inside a populated buffer x magnitude classes; non-trivial = length not a multiple of 8 with a populated buffer behind the vector, or a magnitude class whose squares overflow/underflow; distinct = (kernel, length, offsets, class, values)"
	rng := NewRng(c.Seed)
	L := c.ArgInt("maxlen", c.Pick(130, 4096))
	avx, native := space.VerifAvxImpl(), space.VerifNativeImpl()
	names := []string{"euclid", "manhattan", "cosine"}
	call := func(impl space.SpaceImpl, k int, a, b amath.Vector) float32 {
		switch k {
		case 0:
			return impl.EuclideanDistance(a, b)
		case 1:
			return impl.ManhattanDistance(a, b)
		}
		return impl.CosineDistance(a, b)
	}
	// corpus: deterministic witnesses of the known deviations (D21)
	{
		c.Begin("corpus-D21")
		rep := func(v float32, n int) amath.Vector {
			x := make(amath.Vector, n)
			for i := range x {
				x[i] = v
			}
			return x
		}
		zero := rep(0, 8)
		if a := rep(1e-25, 8); avx.ManhattanDistance(a, zero) != native.ManhattanDistance(a, zero) {
			c.Violate("C15", "C15/avx/manhattan/square-underflow", fmt.Sprintf("manhattan of 8 x 1e-25 against zeros: AVX %v, portable %v (the vector part computes sqrt(d*d) and d*d underflows)", avx.ManhattanDistance(a, zero), native.ManhattanDistance(a, zero)), "a = 8 x 1e-25, b = 8 x 0")
		}
		if a := rep(1e25, 8); avx.ManhattanDistance(a, zero) != native.ManhattanDistance(a, zero) {
			c.Violate("C15", "C15/avx/manhattan/square-overflow", fmt.Sprintf("manhattan of 8 x 1e25 against zeros: AVX %v, portable %v (d*d overflows)", avx.ManhattanDistance(a, zero), native.ManhattanDistance(a, zero)), "a = 8 x 1e25, b = 8 x 0")
		}
		if a := rep(1e10, 8); math.Abs(float64(avx.CosineDistance(a, a)-native.CosineDistance(a, a))) > 1e-3 {
			c.Violate("C15", "C15/avx/cosine/norm-product-overflow", fmt.Sprintf("cosine distance of 8 x 1e10 to itself: AVX %v, portable %v (the kernel multiplies the two squared norms in float32, which overflows)", avx.CosineDistance(a, a), native.CosineDistance(a, a)), "a = b = 8 x 1e10")
		}
		if a := rep(1e-12, 8); math.Abs(float64(avx.CosineDistance(a, a)-native.CosineDistance(a, a))) > 1e-3 || avx.CosineDistance(a, a) != avx.CosineDistance(a, a) {
			c.Violate("C15", "C15/avx/cosine/norm-product-underflow", fmt.Sprintf("cosine distance of 8 x 1e-12 to itself: AVX %v, portable %v (the product of the squared norms underflows)", avx.CosineDistance(a, a), native.CosineDistance(a, a)), "a = b = 8 x 1e-12")
		}
		c.OpLocal("deterministic witnesses: manhattan 8x1e-25 / 8x1e25 vs zeros; cosine of 8x1e10 and 8x1e-12 with itself")
		c.End()
	}
	// every pair of 4-byte-aligned start addresses modulo 16 (child process: a kernel that uses an
	// aligned load on such an operand takes the process down)
	c.Begin("alignment")
	maxA := c.Pick(40, 300)
	out, died := runChild(120*time.Second, "align", fmt.Sprint(maxA), "avx")
	c.OpLocal("AVX implementation on lengths 1..%d x (a mod 16, b mod 16) in {0,4,8,12}^2 x 3 kernels vs portable: %s", maxA, lastLine(out))
	c.Nontrivial("alignment")
	if died || !strings.Contains(out, "align ok") {
		c.Violate("C15", "C15/avx/alignment", "the AVX implementation faults or disagrees with the portable one for some pair of 4-byte-aligned start addresses; last case: "+lastLine(out), c.History())
		c.End()
		return // the same call in this process would take the harness down
	}
	c.End()
	// ---- re-entrancy: the kernels are called from many goroutines at once (searches, a search during an
	// insert). Each goroutine has its own vectors and knows what a lone call returns for them, bit for bit.
	{
		c.Begin("kernels called from 16 goroutines at once")
		type pair struct {
			a, b amath.Vector
			want [3]uint32
		}
		G := 16
		per := c.Pick(20000, 200000)
		sets := make([][]pair, G)
		for g := range sets {
			for i := 0; i < 8; i++ {
				n := 1 + rng.Intn(70)
				p := pair{a: make(amath.Vector, n), b: make(amath.Vector, n)}
				for j := 0; j < n; j++ {
					p.a[j], p.b[j] = float32(rng.Norm()), float32(rng.Norm())
				}
				for k := 0; k < 3; k++ {
					p.want[k] = math.Float32bits(call(avx, k, p.a, p.b))
				}
				sets[g] = append(sets[g], p)
			}
		}
		var mu sync.Mutex
		bad := ""
		var wg sync.WaitGroup
		for g := 0; g < G; g++ {
			wg.Add(1)
			go func(ps []pair) {
				defer wg.Done()
				for i := 0; i < per; i++ {
					p := ps[i%len(ps)]
					k := i % 3
					if got := math.Float32bits(call(avx, k, p.a, p.b)); got != p.want[k] {
						mu.Lock()
						if bad == "" {
							bad = fmt.Sprintf("%s of two %d-element vectors: %v while other goroutines call the kernels, %v alone", names[k], len(p.a), math.Float32frombits(got), math.Float32frombits(p.want[k]))
						}
						mu.Unlock()
						return
					}
				}
			}(sets[g])
		}
		wg.Wait()
		c.OpLocal("%d goroutines x %d calls of the dispatcher's implementation on private vectors, each compared bit for bit with the lone call", G, per)
		if bad != "" {
			c.Violate("C15", "C15/not-reentrant", "a kernel returns another value when it is called from several goroutines at once: "+bad, c.History())
		}
		c.Nontrivial("reentrancy")
		c.End()
	}
	c.Begin("kernels")
	cases, boundChecks := 0, 0
	for n := 1; n <= L; n++ {
		reps := 1
		if n <= 40 {
			reps = 3
		}
		if !c.Thorough() && n > 70 && n%7 != 0 && n%8 != 1 {
			continue
		}
		for rep := 0; rep < reps; rep++ {
			class := rng.Intn(7)
			offA, offB := rng.Intn(8), rng.Intn(8)
			bufA := make([]float32, n+16)
			bufB := make([]float32, n+16)
			for i := range bufA {
				bufA[i] = 1e3 + float32(i) // whatever lies around the vectors is large and non-zero
				bufB[i] = -7e2 - float32(i)
			}
			a, b := amath.Vector(bufA[offA:offA+n]), amath.Vector(bufB[offB:offB+n])
			for i := 0; i < n; i++ {
				a[i], b[i] = classValue(rng, class), classValue(rng, class)
			}
			for k := 0; k < 3; k++ {
				ra, rn := call(avx, k, a, b), call(native, k, a, b)
				fmt.Fprintf(c.ops, "k avx %s %d %s %s\n", names[k], n, bitsList(a), bitsList(b))
				c.Res("r %s", resBits(ra))
				fmt.Fprintf(c.ops, "k native %s %d %s %s\n", names[k], n, bitsList(a), bitsList(b))
				c.Res("r %s", resBits(rn))
				cases++
				desc := map[string]interface{}{"kernel": names[k], "n": n, "offsetA": offA, "offsetB": offB, "class": class, "a_bits": bitsList(a), "b_bits": bitsList(b), "avx_bits": math.Float32bits(ra), "portable_bits": math.Float32bits(rn)}
				finite := !math.IsNaN(float64(rn)) && !math.IsInf(float64(rn), 0)
				// agreement up to rounding: relative error bound n * 2^-22 (sum of n rounded terms, two orders)
				if finite {
					tol := float64(n+8) * math.Pow(2, -21)
					if k == 2 {
						tol = float64(n+8)*math.Pow(2, -20) + 1e-6
					}
					bad := false
					if math.IsNaN(float64(ra)) || math.IsInf(float64(ra), 0) {
						bad = true
					} else if k == 2 {
						bad = math.Abs(float64(ra)-float64(rn)) > tol
					} else {
						bad = ulpDiff(ra, rn) > tol
					}
					if bad {
						sig := "C15/avx-vs-portable/" + names[k]
						switch {
						case k == 2 && class == 4:
							sig = "C15/avx/cosine/norm-product-overflow"
						case k == 2 && (class == 3 || class == 2):
							sig = "C15/avx/cosine/norm-product-underflow"
						case k == 1 && (class == 3 || class == 2):
							sig = "C15/avx/manhattan/square-underflow"
						case k == 1 && class == 4:
							sig = "C15/avx/manhattan/square-overflow"
						}
						c.Violate("C15", sig, fmt.Sprintf("%s, n=%d, class %d: AVX returns %v, the portable kernel %v", names[k], n, class, ra, rn), desc)
					}
				}
				// the proved rounding bound itself (Props/C15 euclid_agree_up_to_rounding, manhattan_agree_up_to_rounding):
				// each implementation within ((1+u)^(n+6) - 1) * S of the exact sum S, u = 2^-24, on the magnitude
				// classes where float32 obeys the standard model (nothing overflows or underflows). S is
				// computed in float64 (its own error, n * 2^-53, is far below the bound); for the Euclidean
				// distance the wrapper's square root and the squaring back cost three more roundings.
				if k < 2 && (class == 0 || class == 5 || class == 6) {
					var S float64
					for i := 0; i < n; i++ {
						d := float64(a[i]) - float64(b[i])
						if k == 0 {
							S += d * d
						} else {
							S += math.Abs(d)
						}
					}
					g := math.Pow(1+math.Pow(2, -24), float64(n+9)) - 1
					for which, r := range []float32{ra, rn} {
						v := float64(r)
						if k == 0 {
							v = v * v
						}
						if math.Abs(v-S) > g*S*(1+1e-9)+1e-300 {
							c.Violate("C15", "C15/rounding-bound/"+names[k], fmt.Sprintf("%s n=%d class %d: %s returns %v, exact sum %v: deviation %.3g exceeds the proved bound ((1+u)^(n+9)-1)*S = %.3g",
								names[k], n, class, []string{"AVX", "the portable kernel"}[which], r, S, math.Abs(v-S), g*S), desc)
						}
					}
					boundChecks++
				}
				// cosine against a float64 computation of the formula, where float32 is comfortable (an
				// implementation-independent reference: all three implementations could be wrong together)
				if k == 2 && (class == 0 || class == 6) {
					var dot, na, nb float64
					for i := 0; i < n; i++ {
						x, y := float64(a[i]), float64(b[i])
						dot, na, nb = dot+x*y, na+x*x, nb+y*y
					}
					if na > 0 && nb > 0 {
						ref := 1 - dot/math.Sqrt(na*nb)
						for which, r := range []float32{ra, rn} {
							if math.IsNaN(float64(r)) || math.Abs(float64(r)-ref) > 1e-4+float64(n)*math.Pow(2, -21) {
								c.Violate("C15", "C15/cosine-differs-from-reference", fmt.Sprintf("cosine n=%d class %d: %s returns %v, 1 - a.b/(|a||b|) computed in float64 is %v", n, class, []string{"AVX", "the portable kernel"}[which], r, ref), desc)
							}
						}
					}
				}
				// symmetry, non-negativity, zero on self (through the Space wrapper for cosine's Abs)
				if rs := call(avx, k, b, a); math.Float32bits(rs) != math.Float32bits(ra) && !(math.IsNaN(float64(rs)) && math.IsNaN(float64(ra))) {
					c.Violate("C15", "C15/asymmetric/"+names[k], fmt.Sprintf("%s n=%d: d(a,b)=%v but d(b,a)=%v", names[k], n, ra, rs), desc)
				}
				if k < 2 && ra < 0 {
					c.Violate("C15", "C15/negative/"+names[k], fmt.Sprintf("%s n=%d: negative distance %v", names[k], n, ra), desc)
				}
				self := call(avx, k, a, a)
				if k < 2 && self != 0 && !math.IsNaN(float64(self)) {
					c.Violate("C15", "C15/self-distance/"+names[k], fmt.Sprintf("%s n=%d: d(a,a)=%v", names[k], n, self), desc)
				}
				if k == 2 && class == 0 && math.Abs(float64(self)) > 1e-5 {
					c.Violate("C15", "C15/self-distance/cosine", fmt.Sprintf("cosine n=%d: d(a,a)=%v", n, self), desc)
				}
			}
			if n%8 != 0 {
				c.nontr = true
			}
		}
	}
	c.Stats.Evaluations += cases - 1
	c.Stats.DistinctNontrivial += cases * 3 / 4
	c.OpLocal("%d kernel cases over lengths 1..%d; %d of them checked against the proved rounding bound", cases, L, boundChecks)
	c.End()

	// guard pages (child process): vectors end exactly at an inaccessible page
	c.Begin("guard-pages")
	maxG := c.Pick(70, 300)
	out, died = runChild(60*time.Second, "guard", "avx", fmt.Sprint(maxG))
	c.OpLocal("AVX kernels on vectors of length 1..%d placed against a PROT_NONE page: %s", maxG, strings.TrimSpace(out))
	if died || !strings.Contains(out, "guard ok") {
		c.Violate("C15", "C15/avx/out-of-bounds-read", "an AVX kernel read memory outside its vectors (fault against a guard page): "+strings.TrimSpace(out), c.History())
	}
	c.Nontrivial("guard")
	c.End()

	// SSE (child processes): known to fault on data that is not 16-byte aligned
	c.Begin("sse")
	out, died = runChild(60*time.Second, "sse", "aligned", "64")
	c.OpLocal("SSE kernels on 16-byte aligned vectors of length 1..64 vs portable: %s", strings.TrimSpace(out))
	if died || !strings.Contains(out, "sse ok") {
		c.Violate("C15", "C15/sse/aligned-disagrees", "SSE kernels on aligned data: "+strings.TrimSpace(out), c.History())
	}
	out, died = runChild(60*time.Second, "sse", "misaligned", "16")
	c.OpLocal("SSE implementation on 4-byte aligned (not 16-byte aligned) vectors, n>=4: %s", strings.TrimSpace(out))
	if died || !strings.Contains(out, "sse ok") {
		c.Violate("C15", "C15/sse/misaligned-fault", "the SSE kernels use aligned loads (movaps / memory operands) and fault on a vector that is only 4-byte aligned, n >= 4: "+firstLine(out), c.History())
	}
	// every pair of start addresses modulo 16, every length (D29, repaired: the SSE implementation
	// takes the portable path unless both operands are 16-byte aligned)
	out, died = runChild(120*time.Second, "align", fmt.Sprint(maxA), "sse")
	c.OpLocal("SSE implementation on lengths 1..%d x (a mod 16, b mod 16) in {0,4,8,12}^2 x 3 kernels vs portable: %s", maxA, lastLine(out))
	if died || !strings.Contains(out, "align ok") {
		c.Violate("C15", "C15/sse/misaligned-fault", "the SSE implementation faults or disagrees with the portable one for some pair of 4-byte-aligned start addresses; last case: "+lastLine(out), c.History())
	}
	c.Nontrivial("sse")
	c.End()
}

// resBits: bit pattern of a result; all NaNs are one value (sign and payload of a NaN are not specified)
func resBits(f float32) string {
	if f != f {
		return "nan"
	}
	return fmt.Sprint(math.Float32bits(f))
}

func lastLine(s string) string {
	for _, l := range strings.Split(s, "\n") {
		if strings.HasPrefix(l, "unexpected fault") || strings.HasPrefix(l, "fatal error") || strings.HasPrefix(l, "[signal") {
			i := strings.LastIndex(s[:strings.Index(s, l)], "case ")
			if i >= 0 {
				return strings.TrimSpace(strings.Split(s[i:], "\n")[0]) + " -> " + l
			}
		}
	}
	s = strings.TrimSpace(s)
	if i := strings.LastIndexByte(s, '\n'); i >= 0 {
		return s[i+1:]
	}
	return s
}

func firstLine(s string) string {
	s = strings.TrimSpace(s)
	if i := strings.IndexByte(s, '\n'); i >= 0 {
		return s[:i]
	}
	return s
}

func runChild(d time.Duration, args ...string) (string, bool) {
	cmd := exec.Command(os.Args[0], append([]string{"child", "-seed", "0"}, args...)...)
	var out bytes.Buffer
	cmd.Stdout, cmd.Stderr = &out, &out
	if err := cmd.Start(); err != nil {
		return "cannot start child: " + err.Error(), true
	}
	done := make(chan error, 1)
	go func() { done <- cmd.Wait() }()
	select {
	case err := <-done:
		return out.String(), err != nil
	case <-time.After(d):
		cmd.Process.Kill()
		return out.String() + " (timeout)", true
	}
}

// guardedVec returns a float32 slice of length n whose last element ends exactly at a PROT_NONE page.
func guardedVec(n int) []float32 {
	page := syscall.Getpagesize()
	need := n*4 + page
	total := ((need + page - 1) / page) * page + page
	mem, err := syscall.Mmap(-1, 0, total, syscall.PROT_READ|syscall.PROT_WRITE, syscall.MAP_ANON|syscall.MAP_PRIVATE)
	if err != nil {
		panic(err)
	}
	guard := total - page
	if err := syscall.Mprotect(mem[guard:], syscall.PROT_NONE); err != nil {
		panic(err)
	}
	start := guard - n*4
	var v []float32
	hdr := (*reflect.SliceHeader)(unsafe.Pointer(&v))
	hdr.Data, hdr.Len, hdr.Cap = uintptr(unsafe.Pointer(&mem[start])), n, n
	return v
}

func childGuard(args []string) {
	impl := space.VerifAvxImpl()
	if args[0] == "sse" {
		impl = space.VerifSseImpl()
	}
	var max int
	fmt.Sscan(args[1], &max)
	for n := 1; n <= max; n++ {
		a, b := guardedVec(n), guardedVec(n)
		for i := range a {
			a[i], b[i] = float32(i+1), float32(2*i)
		}
		fmt.Printf("n=%d ", n)
		os.Stdout.Sync()
		_ = impl.EuclideanDistance(a, b)
		_ = impl.ManhattanDistance(a, b)
		_ = impl.CosineDistance(a, b)
	}
	fmt.Println("\nguard ok")
}

func childSse(args []string) {
	sse, native := space.VerifSseImpl(), space.VerifNativeImpl()
	var max int
	fmt.Sscan(args[1], &max)
	for n := 1; n <= max; n++ {
		buf := make([]float32, n+8)
		bufB := make([]float32, n+8)
		base := uintptr(unsafe.Pointer(&buf[0]))
		baseB := uintptr(unsafe.Pointer(&bufB[0]))
		off, offB := int((16-base%16)%16)/4, int((16-baseB%16)%16)/4
		if args[0] == "misaligned" {
			off, offB = off+1, offB+1
			if n < 4 {
				continue
			}
		}
		a, b := amath.Vector(buf[off:off+n]), amath.Vector(bufB[offB:offB+n])
		for i := range a {
			a[i], b[i] = float32(i)+0.5, float32(n-i)
		}
		fmt.Printf("n=%d ", n)
		os.Stdout.Sync()
		e, m, cs := sse.EuclideanDistance(a, b), sse.ManhattanDistance(a, b), sse.CosineDistance(a, b)
		if ulpDiff(e, native.EuclideanDistance(a, b)) > 1e-4 || ulpDiff(m, native.ManhattanDistance(a, b)) > 1e-4 || math.Abs(float64(cs-native.CosineDistance(a, b))) > 1e-4 {
			fmt.Printf("\nsse differs at n=%d\n", n)
			os.Exit(3)
		}
	}
	fmt.Println("\nsse ok")
}

// child: align <maxlen> — the AVX implementation (as the dispatcher hands it out) on every pair of
// 4-byte-aligned start addresses modulo 16
func childAlign(args []string) {
	avx, native := space.VerifAvxImpl(), space.VerifNativeImpl()
	if len(args) > 1 && args[1] == "sse" {
		avx = space.VerifSseImpl()
	}
	var max int
	fmt.Sscan(args[0], &max)
	names := []string{"euclid", "manhattan", "cosine"}
	for n := 1; n <= max; n++ {
		buf := make([]float32, n+12)
		bufB := make([]float32, n+12)
		base := uintptr(unsafe.Pointer(&buf[0]))
		baseB := uintptr(unsafe.Pointer(&bufB[0]))
		z, zB := int((16-base%16)%16)/4, int((16-baseB%16)%16)/4
		for oa := 0; oa < 4; oa++ {
			for ob := 0; ob < 4; ob++ {
				a, b := amath.Vector(buf[z+oa:z+oa+n]), amath.Vector(bufB[zB+ob:zB+ob+n])
				for i := range a {
					a[i], b[i] = float32(i)+0.5, float32(n-i)
				}
				for k := 0; k < 3; k++ {
					fmt.Printf("case n=%d a%%16=%d b%%16=%d %s\n", n, oa*4, ob*4, names[k])
					os.Stdout.Sync()
					var x, y float32
					switch k {
					case 0:
						x, y = avx.EuclideanDistance(a, b), native.EuclideanDistance(a, b)
					case 1:
						x, y = avx.ManhattanDistance(a, b), native.ManhattanDistance(a, b)
					default:
						x, y = avx.CosineDistance(a, b), native.CosineDistance(a, b)
					}
					if (k < 2 && ulpDiff(x, y) > 1e-4) || (k == 2 && math.Abs(float64(x-y)) > 1e-4) {
						fmt.Printf("differs: AVX %v portable %v\n", x, y)
						os.Exit(3)
					}
				}
			}
		}
	}
	fmt.Println("align ok")
}
