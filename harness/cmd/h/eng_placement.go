package main

// Engine placement (C16): the real Allocator.getPartitionsNodeIds over a real cluster.Conn,
// for N in 1..16, R in 1..8, P in {1,2,7,64}, including multi-step histories (place, members
// leave/join, place again). The Lean driver evaluates the model's decidable validity predicate
// on every observed placement; the oracle adds aliasing and independence checks.

import (
	"fmt"
	"math/rand"
	"sort"
	"strings"

	"github.com/marekgalovic/anndb/cluster"
	"github.com/marekgalovic/anndb/storage"
)

func init() { register("placement", runPlacement) }

func u64s(xs []uint64) string {
	var ss []string
	for _, x := range xs {
		ss = append(ss, fmt.Sprint(x))
	}
	return strings.Join(ss, ",")
}

func runPlacement(c *Ctx) {
	c.Stats.Rule = "all N in 1..16 x R in 1..8 x P in {1,2,7,64} on a fresh membership table, plus random multi-step histories (placement, nodes leaving/joining, placement again); non-trivial = P>=2 with more than one possible replica set, or a placement after a membership change; distinct = distinct (members, R, P, history)"
	rng := NewRng(c.Seed)
	rand.Seed(int64(c.Seed) + 12345)
	reps := c.Pick(2, 12)

	check := func(conn *cluster.Conn, alloc *storage.Allocator, R, P int, afterChange bool, truth []uint64) {
		members := append([]uint64{}, conn.NodeIds()...) // copy: the harness must not sort the callee's slice
		if truth != nil {
			members = append([]uint64{}, truth...) // joined minus left, as the harness recorded it
		}
		sort.Slice(members, func(i, j int) bool { return members[i] < members[j] })
		got, addrs := alloc.VerifPlacement(uint(P), uint(R))
		var ps []string
		for _, g := range got {
			ps = append(ps, u64s(g))
		}
		c.Op("chk %d m:%s p:%s", R, u64s(members), strings.Join(ps, ";"))
		c.Res("valid true")
		N := len(members)
		want := R
		if N < want {
			want = N
		}
		isMember := map[uint64]bool{}
		for _, m := range members {
			isMember[m] = true
		}
		replay := map[string]interface{}{"members": members, "R": R, "P": P, "placement": got, "history": c.History()}
		if len(got) != P {
			c.Violate("C16", "C16/count", fmt.Sprintf("%d placements for %d partitions", len(got), P), replay)
		}
		for i, g := range got {
			if len(g) != want {
				c.Violate("C16", "C16/replica-count", fmt.Sprintf("partition %d has %d nodes, want min(R=%d,N=%d)", i, len(g), R, N), replay)
			}
			seen := map[uint64]bool{}
			for _, x := range g {
				if seen[x] {
					c.Violate("C16", "C16/duplicate-node", fmt.Sprintf("partition %d lists node %d twice", i, x), replay)
				}
				seen[x] = true
				if !isMember[x] {
					c.Violate("C16", "C16/non-member", fmt.Sprintf("partition %d placed on node %d which is not a member", i, x), replay)
				}
			}
		}
		// aliasing: two partitions must not share memory
		for i := range got {
			for j := i + 1; j < len(got); j++ {
				if addrs[i] != 0 && addrs[i] == addrs[j] {
					c.Violate("C16", "C16/aliased", fmt.Sprintf("partitions %d and %d share one backing array", i, j), replay)
				}
			}
		}
		// independence (false-alarm probability below 1e-12): with many partitions and more than one
		// possible replica set, not all partitions are identical, and (when two disjoint replica sets
		// exist) not every consecutive pair shares a node
		if P >= 64 && want >= 1 && N > want {
			allSame := true
			allShare := true
			key := func(g []uint64) string {
				s := append([]uint64{}, g...)
				sort.Slice(s, func(a, b int) bool { return s[a] < s[b] })
				return u64s(s)
			}
			for i := 1; i < len(got); i++ {
				if key(got[i]) != key(got[0]) {
					allSame = false
				}
				share := false
				for _, x := range got[i] {
					for _, y := range got[i-1] {
						if x == y {
							share = true
						}
					}
				}
				if !share {
					allShare = false
				}
			}
			if allSame {
				c.Violate("C16", "C16/not-independent", fmt.Sprintf("all %d partitions landed on the same nodes %v (N=%d, R=%d)", P, got[0], N, R), replay)
			}
			if allShare && 2*want <= N && N >= 4 && want*4 <= N*2 {
				// P(share) <= 1 - C(N-r,r)/C(N,r) <= 0.8 in this range; 0.8^63 < 1e-6 per case is too weak,
				// so demand it only where P(share) <= 1/2: r=1 (N>=2), or N >= 4r
				if want == 1 || N >= 4*want {
					c.Violate("C16", "C16/not-independent", fmt.Sprintf("every consecutive pair of the %d partitions shares a node (N=%d, R=%d)", P, N, R), replay)
				}
			}
		}
		if (P >= 2 && N > want) || afterChange {
			c.Nontrivial("multi-partition")
		}
	}

	// exhaustive sweep over (N, R, P) on fresh membership tables
	for rep := 0; rep < reps; rep++ {
		for N := 1; N <= 16; N++ {
			for R := 1; R <= 8; R++ {
				for _, P := range []int{1, 2, 7, 64} {
					c.Begin(fmt.Sprintf("sweep N=%d R=%d P=%d rep=%d", N, R, P, rep))
					conn, _ := cluster.NewConn(1, "n1", "")
					for i := 1; i <= N; i++ {
						conn.AddNode(uint64(i*3+rep), fmt.Sprintf("n%d", i))
					}
					alloc := storage.NewAllocator(conn)
					c.OpLocal("fresh N=%d R=%d P=%d", N, R, P)
					check(conn, alloc, R, P, false, nil)
					alloc.Stop()
					c.End()
				}
			}
		}
	}
	// multi-step histories
	nh := c.Pick(60, 1200)
	for h := 0; h < nh; h++ {
		r := rng.Fork()
		c.Begin("history")
		conn, _ := cluster.NewConn(1, "n1", "")
		alloc := storage.NewAllocator(conn)
		next := uint64(1)
		var members []uint64
		for i, n := 0, 1+r.Intn(10); i < n; i++ {
			conn.AddNode(next, "a")
			members = append(members, next)
			next++
		}
		changed := false
		for step, n := 0, 3+r.Intn(8); step < n; step++ {
			switch k := r.Intn(10); {
			case k < 5:
				R, P := 1+r.Intn(8), []int{1, 2, 7, 64}[r.Intn(4)]
				c.OpLocal("place R=%d P=%d", R, P)
				if len(members) > 0 {
					check(conn, alloc, R, P, changed, members)
				}
			case k < 8 && len(members) > 1:
				i := r.Intn(len(members))
				c.OpLocal("leave %d", members[i])
				conn.RemoveNode(members[i])
				members = append(members[:i], members[i+1:]...)
				changed = true
			default:
				c.OpLocal("join %d", next)
				conn.AddNode(next, "a")
				members = append(members, next)
				next++
				changed = true
			}
			// the membership table itself must be what was added minus what was removed
			got := append([]uint64{}, conn.NodeIds()...)
			sort.Slice(got, func(i, j int) bool { return got[i] < got[j] })
			want := append([]uint64{}, members...)
			sort.Slice(want, func(i, j int) bool { return want[i] < want[j] })
			if u64s(got) != u64s(want) {
				c.Violate("C16", "C16/membership-table", fmt.Sprintf("member list is %v, joined-minus-left is %v", got, want), c.History())
			}
		}
		alloc.Stop()
		c.End()
	}
	c.Stats.Exhaustive = false
}
