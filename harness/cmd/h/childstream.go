package main

// Engines whose code under test can take the whole process down (a panic on a goroutine of the
// code under test, log.Fatal) run their trials in a child process. The child reports through
// line-prefixed records on stdout, the parent replays them into its Ctx:
//
//	B <label>                  Begin
//	O <line>                   Op  (request for the Lean driver)
//	R <line>                   Res (what the real code answered)
//	L <line>                   OpLocal
//	N <kind>                   Nontrivial
//	C <kind>                   Count
//	V <prop>\t<sig>\t<what>    Violate (replay = the history so far)
//	E                          End
//	DONE                       the child finished its work
//
// A child that dies without DONE is itself a finding: the parent reports <prop>/process-died
// with the tail of the child's stderr.

import (
	"bufio"
	"bytes"
	"fmt"
	"os"
	"os/exec"
	"strings"
	"sync"
	"time"
)

type childOut struct {
	mu sync.Mutex
	w  *bufio.Writer
}

var cout = &childOut{w: bufio.NewWriter(os.Stdout)}

func (o *childOut) line(prefix, format string, a ...interface{}) {
	o.mu.Lock()
	defer o.mu.Unlock()
	s := fmt.Sprintf(format, a...)
	s = strings.ReplaceAll(s, "\n", " ")
	fmt.Fprintln(o.w, prefix+" "+s)
	o.w.Flush()
}
func (o *childOut) Begin(label string)                    { o.line("B", "%s", label) }
func (o *childOut) Op(f string, a ...interface{})         { o.line("O", f, a...) }
func (o *childOut) Res(f string, a ...interface{})        { o.line("R", f, a...) }
func (o *childOut) Local(f string, a ...interface{})      { o.line("L", f, a...) }
func (o *childOut) Nontrivial(kind string)                { o.line("N", "%s", kind) }
func (o *childOut) Count(kind string)                     { o.line("C", "%s", kind) }
func (o *childOut) Violate(prop, sig, what string)        { o.line("V", "%s\t%s\t%s", prop, sig, what) }
func (o *childOut) End()                                  { o.line("E", "") }
func (o *childOut) Done()                                 { o.line("DONE", "") }

// streamChild runs `h child <args>` and replays its records into c. It returns false when the
// child died (or timed out) before DONE; the violation has then been recorded already.
func streamChild(c *Ctx, d time.Duration, prop string, args ...string) bool {
	cmd := exec.Command(os.Args[0], append([]string{"child", "-seed", "0"}, args...)...)
	var stderr bytes.Buffer
	cmd.Stderr = &stderr
	stdout, err := cmd.StdoutPipe()
	if err != nil {
		panic(err)
	}
	if err := cmd.Start(); err != nil {
		panic(err)
	}
	timer := time.AfterFunc(d, func() { cmd.Process.Kill() })
	defer timer.Stop()
	done := false
	open := false
	sc := bufio.NewScanner(stdout)
	sc.Buffer(make([]byte, 1<<20), 1<<26)
	for sc.Scan() {
		l := sc.Text()
		p, rest := l, ""
		if i := strings.IndexByte(l, ' '); i >= 0 {
			p, rest = l[:i], l[i+1:]
		}
		switch p {
		case "B":
			c.Begin(rest)
			open = true
		case "O":
			c.Op("%s", rest)
		case "R":
			c.Res("%s", rest)
		case "L":
			c.OpLocal("%s", rest)
		case "N":
			c.Nontrivial(rest)
		case "C":
			c.Count(rest)
		case "V":
			f := strings.SplitN(rest, "\t", 3)
			if len(f) == 3 {
				c.Violate(f[0], f[1], f[2], c.History())
			}
		case "E":
			c.End()
			open = false
		case "DONE":
			done = true
		}
	}
	werr := cmd.Wait()
	if strings.Contains(stderr.String(), "WARNING: DATA RACE") {
		// a race report of a child built with the race detector is the check's to judge
		os.Stderr.WriteString(stderr.String())
	}
	if !done {
		// keep everything the child wrote: the reason is often far above the tail
		if c.Out != "" {
			os.WriteFile(fmt.Sprintf("%s/child-died-%d.stderr.txt", c.Out, time.Now().UnixNano()), stderr.Bytes(), 0644)
		}
		tail := lastLines(stderr.String(), 12)
		if len(tail) > 3000 {
			tail = tail[len(tail)-3000:]
		}
		// the reason comes first in a Go crash report: keep it in front of the stack tail
		for _, l := range strings.Split(stderr.String(), "\n") {
			if strings.HasPrefix(l, "panic:") || strings.HasPrefix(l, "fatal error:") || strings.HasPrefix(l, "log.Fatal in the code under test") {
				if len(l) > 600 {
					l = l[:600]
				}
				tail = l + " | ... | " + tail
				break
			}
		}
		c.OpLocal("child %s ended without finishing: %v", strings.Join(args, " "), werr)
		c.Violate(prop, prop+"/process-died", fmt.Sprintf("the process running the code under test died (%v): %s", werr, tail), c.History())
		if open {
			c.End()
		}
		return false
	}
	return true
}
