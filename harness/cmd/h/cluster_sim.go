package main

// In-process cluster simulation: N nodes, each with the objects server.go wires together
// (cluster.Conn, RaftTransport, Allocator, DatasetManager, the gRPC service objects), over
//   - a scripted catalogue group (raft.Group implemented here: one shared log, delivered in
//     order to every node's apply goroutine),
//   - real raft groups per partition (storage/raft.RaftGroup over a real Badger WAL), talking
//     through in-memory pb.RaftTransportClients,
//   - in-memory pb.DataManagerClient / pb.SearchClient that call the target node's real service
//     handlers and can be gated, failed or counted by the harness.

import (
	"context"
	"errors"
	"fmt"
	"io"
	"reflect"
	"sync"
	"sync/atomic"
	"time"

	badger "github.com/dgraph-io/badger/v2"
	pb "github.com/marekgalovic/anndb/protobuf"
	"github.com/marekgalovic/anndb/services"
	"github.com/marekgalovic/anndb/storage"
	"github.com/marekgalovic/anndb/storage/raft"
	"github.com/marekgalovic/anndb/storage/wal"
	"google.golang.org/grpc"
	"google.golang.org/grpc/codes"
	"google.golang.org/grpc/status"
	"google.golang.org/grpc/metadata"

	uuid "github.com/satori/go.uuid"
)

// ---------------------------------------------------------------- scripted catalogue group

type catalogue struct {
	mu      sync.Mutex
	log     [][]byte
	members []*simGroup
	drop    bool // proposals are accepted but never applied (no quorum)
}

type simGroup struct {
	cat       *catalogue
	nodeId    uint64
	processFn raft.ProcessFn
	snapFn    raft.SnapshotFn
	restoreFn raft.ProcessFn
	inbox     chan interface{} // []byte: a committed catalogue entry; func(): a conf change applied by the same goroutine
	applied   int
	panics    []string // panics of the apply goroutine (in production: the node dies)
	appliedMu sync.Mutex
	stopped   chan struct{}
}

func (g *simGroup) RegisterProcessFn(f raft.ProcessFn) error         { g.processFn = f; return nil }
func (g *simGroup) RegisterProcessSnapshotFn(f raft.ProcessFn) error { g.restoreFn = f; return nil }
func (g *simGroup) RegisterSnapshotFn(f raft.SnapshotFn) error       { g.snapFn = f; return nil }
func (g *simGroup) LeaderId() uint64                                 { return 1 }
func (g *simGroup) Propose(ctx context.Context, data []byte) error {
	c := g.cat
	c.mu.Lock()
	defer c.mu.Unlock()
	if c.drop {
		return nil
	}
	d := append([]byte{}, data...)
	c.log = append(c.log, d)
	for _, m := range c.members {
		m.inbox <- d
	}
	return nil
}

func (g *simGroup) run() {
	for {
		select {
		case it := <-g.inbox:
			func() {
				defer func() {
					if r := recover(); r != nil {
						g.appliedMu.Lock()
						g.panics = append(g.panics, fmt.Sprint(r))
						g.appliedMu.Unlock()
					}
				}()
				switch d := it.(type) {
				case []byte:
					if g.processFn != nil {
						g.processFn(d)
					}
				case func():
					d()
				}
			}()
			g.appliedMu.Lock()
			g.applied++
			g.appliedMu.Unlock()
		case <-g.stopped:
			return
		}
	}
}

func (g *simGroup) Panics() []string {
	g.appliedMu.Lock()
	defer g.appliedMu.Unlock()
	return append([]string{}, g.panics...)
}

func (g *simGroup) Applied() int {
	g.appliedMu.Lock()
	defer g.appliedMu.Unlock()
	return g.applied
}

// ---------------------------------------------------------------- nodes

type simNode struct {
	id        uint64
	ctl       *crashCtl // crash plan of this incarnation (nil: the node cannot crash)
	db        *badger.DB
	node      *storage.VerifNode
	group     *simGroup
	dmSrv     pb.DataManagerServer
	searchSrv pb.SearchServer
	dsSrv     pb.DatasetManagerServer
}

type simCluster struct {
	order map[uuid.UUID][]uuid.UUID // dataset -> partition ids in catalogue order, as created
	cat   *catalogue
	nodes map[uint64]*simNode
	ids   []uint64

	mu sync.Mutex
	// fault / gate plan, consulted by the in-memory clients
	dmFail     map[[2]uint64]error                                     // (from,to) -> error for every DataManager call
	dmHook     func(ctx context.Context, from, to uint64, method string, req interface{}) error // called before the handler runs
	searchHook func(ctx context.Context, from, to uint64, req *pb.SearchPartitionsRequest) error
	raftDrop   func(from, to uint64) bool
	searchLog  []searchCall
}

type trialKeyT struct{}

var trialKey = trialKeyT{}
var trialSeq int64

// newTrial returns a context tagged with a fresh trial number: hooks ignore calls that belong
// to an earlier trial (goroutines the code under test left running after returning early).
func newTrial() (context.Context, int64) {
	n := atomic.AddInt64(&trialSeq, 1)
	return context.WithValue(context.Background(), trialKey, n), n
}

func trialOf(ctx context.Context) int64 {
	if v, ok := ctx.Value(trialKey).(int64); ok {
		return v
	}
	return 0
}

type searchCall struct {
	trial      int64
	from, to   uint64
	partitions []uuid.UUID
	items      []*pb.SearchResultItem
	err        error
}

func newSimCluster(n int) *simCluster { return newSimClusterAt(n, "") }

// newSimClusterAt: with dir != "" every node keeps its Badger database on disk under dir/node-<id>
// (so that a second cluster over the same directory is a restart of the same nodes).
func newSimClusterAt(n int, dir string) *simCluster {
	c := &simCluster{cat: &catalogue{}, nodes: map[uint64]*simNode{}, dmFail: map[[2]uint64]error{}}
	for i := 1; i <= n; i++ {
		id := uint64(i)
		opts := badger.DefaultOptions("").WithInMemory(true).WithLogger(nil).WithMaxTableSize(1 << 20).WithNumMemtables(2)
		if dir != "" {
			opts = badger.DefaultOptions(fmt.Sprintf("%s/node-%d", dir, id)).WithLogger(nil).WithSyncWrites(false).WithMaxTableSize(1 << 20).WithNumMemtables(2).WithValueLogFileSize(1 << 22).WithTruncate(serverStoreTruncates())
		}
		db, err := badger.Open(opts)
		if err != nil {
			panic(err)
		}
		g := &simGroup{cat: c.cat, nodeId: id, inbox: make(chan interface{}, 4096), stopped: make(chan struct{})}
		vn, err := storage.VerifNewNode(id, db, g)
		if err != nil {
			panic(err)
		}
		c.cat.members = append(c.cat.members, g)
		sn := &simNode{id: id, db: db, node: vn, group: g,
			dmSrv: services.NewDataManagerServer(vn.DatasetManager), searchSrv: services.NewSearchServer(vn.DatasetManager),
			dsSrv: services.NewDatasetManagerServer(vn.DatasetManager)}
		c.nodes[id] = sn
		c.ids = append(c.ids, id)
		go g.run()
	}
	// membership and raft transport
	for _, a := range c.ids {
		for _, b := range c.ids {
			if a != b {
				c.nodes[a].node.Conn.AddNode(b, fmt.Sprintf("node-%d", b))
			}
			c.nodes[a].node.Transport.VerifSetClient(b, &simRaftClient{c, a, b, c.nodes[a]})
		}
	}
	return c
}

func (c *simCluster) Close() {
	atomic.AddInt32(&shuttingDown, 1)
	defer func() {
		go func() { time.Sleep(300 * time.Millisecond); atomic.AddInt32(&shuttingDown, -1) }()
	}()
	// 1. no more catalogue entries are applied
	for _, n := range c.nodes {
		close(n.group.stopped)
	}
	time.Sleep(5 * time.Millisecond)
	// 2. the allocator loops stop loading / unloading partitions
	for _, n := range c.nodes {
		func() { defer func() { recover() }(); n.node.Allocator.Stop() }()
	}
	time.Sleep(5 * time.Millisecond)
	// 3. every raft group of every node is stopped (twice: a load may have been in flight)
	for i := 0; i < 2; i++ {
		for _, n := range c.nodes {
			n.node.Transport.VerifStopAllGroups()
		}
		time.Sleep(5 * time.Millisecond)
	}
	// 4. the in-memory databases are small (1 MiB tables) and are left to the garbage collector:
	//    closing them while a stopped group's last iteration is still inside Badger crashes the process
}

// CloseDBs additionally closes the databases (needed before the same directory is reopened).
func (c *simCluster) CloseDBs() {
	c.Close()
	time.Sleep(100 * time.Millisecond)
	for _, n := range c.nodes {
		n.db.Close()
	}
}

// waitFor polls cond up to d.
func waitFor(d time.Duration, cond func() bool) bool {
	deadline := time.Now().Add(d)
	for time.Now().Before(deadline) {
		if cond() {
			return true
		}
		time.Sleep(2 * time.Millisecond)
	}
	return cond()
}

// createDataset creates a dataset through node `via`, waits until every node lists it, injects
// the in-memory clients, and (for hosted partitions) makes one replica campaign and waits for a leader.
func (c *simCluster) createDataset(via uint64, dim, parts, repl uint32, space pb.Space) (uuid.UUID, error) {
	ds, err := c.nodes[via].node.DatasetManager.Create(context.Background(), &pb.Dataset{Dimension: dim, Space: space, PartitionCount: parts, ReplicationFactor: repl})
	if err != nil {
		return uuid.Nil, err
	}
	id := ds.VerifId()
	// the harness's own record of the catalogue order of the partitions (routing is positional in it),
	// taken once, from the value Create returned: never re-read from a node's live partition list
	c.mu.Lock()
	if c.order == nil {
		c.order = map[uuid.UUID][]uuid.UUID{}
	}
	c.order[id] = ds.VerifPartitionIds()
	c.mu.Unlock()
	ok := waitFor(5*time.Second, func() bool {
		for _, n := range c.nodes {
			if _, err := n.node.DatasetManager.Get(id); err != nil {
				return false
			}
		}
		return true
	})
	if !ok {
		return id, errors.New("dataset not listed on every node within 5 s")
	}
	c.injectClients(id)
	// wait for the allocator loops to load raft on the hosting nodes, then elect
	for pi := 0; pi < int(parts); pi++ {
		hosts := ds.VerifPartitionAt(pi).NodeIds()
		ok := waitFor(10*time.Second, func() bool {
			for _, h := range hosts {
				d, _ := c.nodes[h].node.DatasetManager.Get(id)
				if !d.VerifPartitionAt(pi).HasRaft() {
					return false
				}
			}
			return true
		})
		if !ok {
			return id, fmt.Errorf("partition %d: raft not loaded on its hosts within 10 s", pi)
		}
		d0, _ := c.nodes[hosts[0]].node.DatasetManager.Get(id)
		d0.VerifPartitionAt(pi).Raft().VerifCampaign()
		lastCampaign := time.Now()
		ok = waitFor(40*time.Second, func() bool {
			for _, h := range hosts {
				d, _ := c.nodes[h].node.DatasetManager.Get(id)
				if d.VerifPartitionAt(pi).Raft().VerifStatus().Lead == 0 {
					// a lost first round (replicas still starting, a loaded machine) is retried by raft's own
					// election timer after 1-2 s; nudge it
					if time.Since(lastCampaign) > 3*time.Second {
						lastCampaign = time.Now()
						d0.VerifPartitionAt(pi).Raft().VerifCampaign()
					}
					return false
				}
			}
			return true
		})
		if !ok {
			return id, fmt.Errorf("partition %d: no leader within 40 s", pi)
		}
	}
	return id, nil
}

func (c *simCluster) injectClients(dataset uuid.UUID) {
	for _, a := range c.ids {
		d, err := c.nodes[a].node.DatasetManager.Get(dataset)
		if err != nil {
			continue
		}
		for _, b := range c.ids {
			d.VerifSetClients(b, &simSearchClient{c, a, b}, &simDMClient{c, a, b})
		}
	}
}

func (c *simCluster) dataset(node uint64, id uuid.UUID) *storage.Dataset {
	d, err := c.nodes[node].node.DatasetManager.Get(id)
	if err != nil {
		return nil
	}
	return d
}

// ---------------------------------------------------------------- in-memory clients

type simRaftClient struct {
	c        *simCluster
	from, to uint64
	owner    *simNode // the incarnation this client belongs to (nil: not tracked)
}

func (n *simNode) isDead() bool { return n != nil && n.ctl != nil && n.ctl.isDead() }

func (r *simRaftClient) Receive(ctx context.Context, in *pb.RaftMessage, opts ...grpc.CallOption) (*pb.EmptyMessage, error) {
	r.c.mu.Lock()
	drop := r.c.raftDrop
	r.c.mu.Unlock()
	if drop != nil && drop(r.from, r.to) {
		return nil, errors.New("sim: message dropped")
	}
	r.c.mu.Lock()
	n, ok := r.c.nodes[r.to]
	r.c.mu.Unlock()
	if !ok {
		return nil, errors.New("sim: no such node")
	}
	if r.owner.isDead() || n.isDead() {
		return nil, errors.New("sim: node is down")
	}
	// as over gRPC: the sender's deadline bounds the call, the handler keeps running
	done := make(chan error, 1)
	go func() {
		_, err := n.node.Transport.Receive(context.Background(), in)
		done <- err
	}()
	select {
	case err := <-done:
		if err != nil {
			return nil, err
		}
		return &pb.EmptyMessage{}, nil
	case <-ctx.Done():
		return nil, ctx.Err()
	}
}

type simDMClient struct {
	c        *simCluster
	from, to uint64
}

type hopKey struct{}

// pre2 = pre + a bound on how often one request is handed from node to node. The in-memory clients call
// the peer's handler on the caller's stack; two nodes that each believe the other owns an id would
// forward the request for ever (over gRPC: until the deadline). After 12 hops the call fails the way
// the real one would: deadline exceeded.
func (d *simDMClient) pre2(ctx context.Context, method string, req interface{}) (context.Context, pb.DataManagerServer, error) {
	hops, _ := ctx.Value(hopKey{}).(int)
	if hops >= 12 {
		return ctx, nil, status.Error(codes.DeadlineExceeded, "forwarded 12 times between nodes without reaching an owner (a real call bounces until its deadline)")
	}
	s, err := d.pre(ctx, method, req)
	return context.WithValue(ctx, hopKey{}, hops+1), s, err
}

func (d *simDMClient) pre(ctx context.Context, method string, req interface{}) (pb.DataManagerServer, error) {
	d.c.mu.Lock()
	err := d.c.dmFail[[2]uint64{d.from, d.to}]
	hook := d.c.dmHook
	d.c.mu.Unlock()
	if err != nil {
		return nil, err
	}
	if hook != nil {
		if err := hook(ctx, d.from, d.to, method, req); err != nil {
			return nil, err
		}
	}
	d.c.mu.Lock()
	t := d.c.nodes[d.to]
	d.c.mu.Unlock()
	if t.isDead() {
		return nil, errDialFault
	}
	return t.dmSrv, nil
}

func (d *simDMClient) Insert(ctx context.Context, in *pb.InsertRequest, opts ...grpc.CallOption) (*pb.EmptyMessage, error) {
	ctx, s, err := d.pre2(ctx, "Insert", in)
	if err != nil {
		return nil, err
	}
	return s.Insert(ctx, in)
}
func (d *simDMClient) Update(ctx context.Context, in *pb.UpdateRequest, opts ...grpc.CallOption) (*pb.EmptyMessage, error) {
	ctx, s, err := d.pre2(ctx, "Update", in)
	if err != nil {
		return nil, err
	}
	return s.Update(ctx, in)
}
func (d *simDMClient) Remove(ctx context.Context, in *pb.RemoveRequest, opts ...grpc.CallOption) (*pb.EmptyMessage, error) {
	ctx, s, err := d.pre2(ctx, "Remove", in)
	if err != nil {
		return nil, err
	}
	return s.Remove(ctx, in)
}
func (d *simDMClient) BatchInsert(ctx context.Context, in *pb.BatchRequest, opts ...grpc.CallOption) (*pb.BatchResponse, error) {
	ctx, s, err := d.pre2(ctx, "BatchInsert", in)
	if err != nil {
		return nil, err
	}
	return s.BatchInsert(ctx, in)
}
func (d *simDMClient) BatchUpdate(ctx context.Context, in *pb.BatchRequest, opts ...grpc.CallOption) (*pb.BatchResponse, error) {
	ctx, s, err := d.pre2(ctx, "BatchUpdate", in)
	if err != nil {
		return nil, err
	}
	return s.BatchUpdate(ctx, in)
}
func (d *simDMClient) BatchRemove(ctx context.Context, in *pb.BatchRequest, opts ...grpc.CallOption) (*pb.BatchResponse, error) {
	ctx, s, err := d.pre2(ctx, "BatchRemove", in)
	if err != nil {
		return nil, err
	}
	return s.BatchRemove(ctx, in)
}
func (d *simDMClient) PartitionBatchInsert(ctx context.Context, in *pb.PartitionBatchRequest, opts ...grpc.CallOption) (*pb.BatchResponse, error) {
	ctx, s, err := d.pre2(ctx, "PartitionBatchInsert", in)
	if err != nil {
		return nil, err
	}
	return s.PartitionBatchInsert(ctx, in)
}
func (d *simDMClient) PartitionBatchUpdate(ctx context.Context, in *pb.PartitionBatchRequest, opts ...grpc.CallOption) (*pb.BatchResponse, error) {
	ctx, s, err := d.pre2(ctx, "PartitionBatchUpdate", in)
	if err != nil {
		return nil, err
	}
	return s.PartitionBatchUpdate(ctx, in)
}
func (d *simDMClient) PartitionBatchRemove(ctx context.Context, in *pb.PartitionBatchRequest, opts ...grpc.CallOption) (*pb.BatchResponse, error) {
	ctx, s, err := d.pre2(ctx, "PartitionBatchRemove", in)
	if err != nil {
		return nil, err
	}
	return s.PartitionBatchRemove(ctx, in)
}
func (d *simDMClient) PartitionInfo(ctx context.Context, in *pb.PartitionInfoRequest, opts ...grpc.CallOption) (*pb.PartitionInfoResponse, error) {
	ctx, s, err := d.pre2(ctx, "PartitionInfo", in)
	if err != nil {
		return nil, err
	}
	return s.PartitionInfo(ctx, in)
}

// ---- search

type simSearchClient struct {
	c        *simCluster
	from, to uint64
}

type fakeServerStream struct {
	ctx   context.Context
	items []*pb.SearchResultItem
}

func (s *fakeServerStream) Send(m *pb.SearchResultItem) error { s.items = append(s.items, m); return nil }
func (s *fakeServerStream) SetHeader(metadata.MD) error       { return nil }
func (s *fakeServerStream) SendHeader(metadata.MD) error      { return nil }
func (s *fakeServerStream) SetTrailer(metadata.MD)            {}
func (s *fakeServerStream) Context() context.Context          { return s.ctx }
func (s *fakeServerStream) SendMsg(m interface{}) error       { return nil }
func (s *fakeServerStream) RecvMsg(m interface{}) error       { return io.EOF }

type fakeClientStream struct {
	ctx   context.Context
	items []*pb.SearchResultItem
	err   error // delivered after the items
	pos   int
}

func (s *fakeClientStream) Recv() (*pb.SearchResultItem, error) {
	if s.pos < len(s.items) {
		s.pos++
		return s.items[s.pos-1], nil
	}
	if s.err != nil {
		return nil, s.err
	}
	return nil, io.EOF
}
func (s *fakeClientStream) Header() (metadata.MD, error) { return nil, nil }
func (s *fakeClientStream) Trailer() metadata.MD         { return nil }
func (s *fakeClientStream) CloseSend() error             { return nil }
func (s *fakeClientStream) Context() context.Context     { return s.ctx }
func (s *fakeClientStream) SendMsg(m interface{}) error  { return nil }
func (s *fakeClientStream) RecvMsg(m interface{}) error  { return io.EOF }

func (s *simSearchClient) Search(ctx context.Context, in *pb.SearchRequest, opts ...grpc.CallOption) (pb.Search_SearchClient, error) {
	srv := &fakeServerStream{ctx: ctx}
	err := s.c.nodes[s.to].searchSrv.Search(in, srv)
	return &fakeClientStream{ctx: ctx, items: srv.items, err: err}, nil
}

func (s *simSearchClient) SearchPartitions(ctx context.Context, in *pb.SearchPartitionsRequest, opts ...grpc.CallOption) (pb.Search_SearchPartitionsClient, error) {
	s.c.mu.Lock()
	hook := s.c.searchHook
	s.c.mu.Unlock()
	var pids []uuid.UUID
	for _, b := range in.GetPartitionIds() {
		pids = append(pids, uuid.FromBytesOrNil(b))
	}
	call := searchCall{trial: trialOf(ctx), from: s.from, to: s.to, partitions: pids}
	if hook != nil {
		if err := hook(ctx, s.from, s.to, in); err != nil {
			call.err = err
			s.c.mu.Lock()
			s.c.searchLog = append(s.c.searchLog, call)
			s.c.mu.Unlock()
			if errors.Is(err, errStreamFault) { // the call opens, the failure shows on Recv (as gRPC does)
				return &fakeClientStream{ctx: ctx, err: err}, nil
			}
			if sf, ok := err.(streamFault); ok {
				return &fakeClientStream{ctx: ctx, err: sf.error}, nil
			}
			return nil, err
		}
	}
	srv := &fakeServerStream{ctx: ctx}
	err := s.c.nodes[s.to].searchSrv.SearchPartitions(in, srv)
	call.items, call.err = srv.items, err
	s.c.mu.Lock()
	s.c.searchLog = append(s.c.searchLog, call)
	s.c.mu.Unlock()
	// a handler error reaches a gRPC client on Recv, after whatever was sent
	return &fakeClientStream{ctx: ctx, items: srv.items, err: err}, nil
}

// streamFault marks an injected error that shows on Recv (the call itself opens)
type streamFault struct{ error }

var errStreamFault = errors.New("sim: node failed mid-stream")
var errDialFault = errors.New("sim: node unreachable")

// ---------------------------------------------------------------- crash / restart of a simulated node

var ctlByDB sync.Map // *badger.DB -> *crashCtl of the incarnation that currently owns the database

// enableCrashes gives every node a crash plan: the log store of every partition created from now
// on is wrapped (storage.VerifWrapWAL), the durable writes of a node are counted across its groups.
func (c *simCluster) enableCrashes() {
	storage.VerifWrapWAL = func(id uuid.UUID, w wal.WAL) wal.WAL {
		db := reflect.ValueOf(w).Elem().FieldByName("db").Pointer()
		var ctl *crashCtl
		ctlByDB.Range(func(k, v interface{}) bool {
			if reflect.ValueOf(k).Pointer() == db {
				ctl = v.(*crashCtl)
				return false
			}
			return true
		})
		if ctl == nil {
			return w
		}
		return &crashWAL{inner: w, ctl: ctl, gid: id, rec: walRecFor(db, id)}
	}
	for _, n := range c.nodes {
		n.ctl = newCrashCtl()
		ctlByDB.Store(n.db, n.ctl)
	}
}

// restartNode replaces the (dead) incarnation of node id by a fresh one over the same database:
// the catalogue log is replayed into it, which re-creates the datasets, whose partitions restart
// their raft groups from the log store.
func (c *simCluster) restartNode(id uint64) (*simNode, error) {
	c.mu.Lock()
	old := c.nodes[id]
	c.mu.Unlock()
	if old.ctl != nil {
		old.ctl.kill()
	}
	func() { defer func() { recover() }(); close(old.group.stopped) }()
	func() { defer func() { recover() }(); old.node.Allocator.Stop() }()
	go old.node.Transport.VerifStopAllGroups()
	ctl := newCrashCtl()
	ctlByDB.Store(old.db, ctl)
	g := &simGroup{cat: c.cat, nodeId: id, inbox: make(chan interface{}, 4096), stopped: make(chan struct{})}
	vn, err := storage.VerifNewNode(id, old.db, g)
	if err != nil {
		return nil, err
	}
	sn := &simNode{id: id, ctl: ctl, db: old.db, node: vn, group: g,
		dmSrv: services.NewDataManagerServer(vn.DatasetManager), searchSrv: services.NewSearchServer(vn.DatasetManager),
		dsSrv: services.NewDatasetManagerServer(vn.DatasetManager)}
	for _, b := range c.ids {
		if b != id {
			vn.Conn.AddNode(b, fmt.Sprintf("node-%d", b))
			vn.Transport.VerifSetClient(b, &simRaftClient{c, id, b, sn})
		}
	}
	c.cat.mu.Lock()
	for i, m := range c.cat.members {
		if m == old.group {
			c.cat.members[i] = g
		}
	}
	for _, e := range c.cat.log {
		g.inbox <- e
	}
	n := len(c.cat.log)
	c.cat.mu.Unlock()
	c.mu.Lock()
	c.nodes[id] = sn
	c.mu.Unlock()
	go g.run()
	if !waitFor(10*time.Second, func() bool { return g.Applied() >= n }) {
		return sn, errors.New("catalogue replay stalls")
	}
	if ps := g.Panics(); len(ps) > 0 {
		return sn, errors.New("catalogue replay panicked: " + ps[0])
	}
	return sn, nil
}

// canonIndex: position of a partition in the catalogue order recorded when the dataset was created
func (c *simCluster) canonIndex(ds, pid uuid.UUID) int {
	c.mu.Lock()
	defer c.mu.Unlock()
	for i, q := range c.order[ds] {
		if q == pid {
			return i
		}
	}
	return -1
}

// partitionByCanonIndex: the node's partition object whose id is the i-th of the recorded catalogue order
func (c *simCluster) partitionByCanonIndex(node uint64, ds uuid.UUID, i int) *storage.VerifPartition {
	c.mu.Lock()
	var pid uuid.UUID
	if i < len(c.order[ds]) {
		pid = c.order[ds][i]
	}
	c.mu.Unlock()
	d := c.dataset(node, ds)
	if d == nil {
		return nil
	}
	for k := 0; k < d.VerifPartitionCount(); k++ {
		if p := d.VerifPartitionAt(k); p.Id() == pid {
			return p
		}
	}
	return nil
}
