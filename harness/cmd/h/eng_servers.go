package main

// Engine `servers`: scenarios on real anndb.Server instances — the whole node as cmd/anndb runs it
// (Badger on disk, zero raft group, shared group, nodes manager, dataset manager, allocator, all
// five gRPC services on loopback ports), several of them in one child process, driven through
// gRPC clients only. What the other engines replace by a scripted log or in-memory clients is real
// here: the shared group's multiplexing of the zero group's log and snapshot, server.go's wiring,
// the raft transport, the join handshake, stop + restart over the same data directory.
//
// Scenarios (one child process each; `only=<prefix>` selects):
//
//	catalogue-lagging   C14  a member is down while datasets are deleted / created and the others
//	                         compact the zero group's log; it comes back, is caught up by the leader's
//	                         snapshot, and must list exactly what the others list — with an empty
//	                         catalogue at the moment of the snapshot, and with a non-empty one
//	catalogue-random    C14  random create / delete through random members, one member at a time
//	                         stopped and restarted, forced snapshots; then every member, and every
//	                         member after a restart of the whole cluster, lists the acknowledged catalogue
//	restart-serving     C18  a node that led an under-replicated partition restarts with its datasets
//	                         and a peer that joined after they were created; it must go on applying
//	                         catalogue changes
//	placement-members   C16  a member is removed; datasets created through every remaining member are
//	                         placed on current members only, min(R, N) of them
//	membership          C20  joins, a removal, restarts: every member lists the same members and addresses
//
// Timing: waits are on conditions with generous limits (30-60 s); nothing is asserted about speed.

import (
	"bufio"
	"bytes"
	"context"
	"fmt"
	"io"
	"io/ioutil"
	"net"
	"os"
	"os/exec"
	"path/filepath"
	"sort"
	"strconv"
	"strings"
	"sync"
	"sync/atomic"
	"time"

	"github.com/marekgalovic/anndb"
	pb "github.com/marekgalovic/anndb/protobuf"
	uuid "github.com/satori/go.uuid"
	log "github.com/sirupsen/logrus"
	"google.golang.org/grpc"
)

func init() {
	register("servers", runServers)
	childHandlers["servers-node"] = childServerNode
}

var serverScenarios = []struct{ name, prop string }{
	{"catalogue-lagging", "C14"},
	{"catalogue-random", "C14"},
	{"catalogue-replay", "C14"},
	{"restart-replay", "C18"},
	{"restart-serving", "C18"},
	{"crash-torn-write", "C03"},
	{"crash-under-load", "C03"},
	{"placement-members", "C16"},
	{"membership", "C20"},
	{"membership-late-leader", "C20"},
	{"membership-rejoin", "C20"},
}

func runServers(c *Ctx) {
	c.Stats.Rule = "scenarios on 2-4 real anndb.Server instances in one child process each (real Badger directories, zero raft group + shared group + nodes manager + dataset manager + allocator, gRPC on loopback), driven through gRPC clients: stop / restart of members, forced compaction of the zero group's log, joins and removals; non-trivial = a member was caught up by a snapshot or restarted from its data directory; distinct = distinct scenario and action sequence"
	only := c.Args["only"]
	reps := c.ArgInt("reps", c.Pick(1, 4))
	for _, sc := range serverScenarios {
		if only != "" && !strings.HasPrefix(sc.name, only) {
			continue
		}
		n := 1
		if sc.name == "catalogue-random" {
			n = reps
		}
		for i := 0; i < n; i++ {
			rng := NewRng(c.Seed*100 + uint64(i))
			switch sc.name {
			case "catalogue-lagging":
				srvCatalogueLagging(c, true, rng.Intn(2) == 0)
				srvCatalogueLagging(c, false, rng.Intn(2) == 0)
			case "catalogue-random":
				srvCatalogueRandom(c, rng, c.Thorough())
			case "catalogue-replay":
				srvReplayCreateDelete(c, "C14", rng)
			case "restart-replay":
				srvReplayCreateDelete(c, "C18", rng)
			case "restart-serving":
				srvRestartServing(c, rng.Intn(2) == 0)
			case "crash-torn-write":
				srvCrashTornWrite(c, rng)
			case "crash-under-load":
				srvCrashUnderLoad(c, rng, c.Pick(3, 12))
			case "placement-members":
				srvPlacementMembers(c)
			case "membership":
				srvMembership(c, rng.Intn(2) == 0)
			case "membership-late-leader":
				srvMembershipLateLeader(c)
			case "membership-rejoin":
				srvMembershipRejoin(c, rng.Intn(2) == 0)
			}
		}
	}
}

// ---------------------------------------------------------------- a cluster of real servers
//
// Every member is its own OS process (`h child servers-node …`): one anndb.Server, as cmd/anndb runs
// it, plus a line protocol on stdin (snapshot / stacks / stop). A member is stopped by asking it to
// (Server.Stop, then exit) or by SIGKILL; what its goroutines do to a closing database on the way down
// is of no interest. A member that ends although nobody stopped it — a panic or log.Fatal in the code
// under test — is reported.

type srvNode struct {
	id     uint64
	port   string
	dir    string
	cmd    *exec.Cmd
	stdin  io.WriteCloser
	lines  chan string
	exited chan struct{}
	stderr *bytes.Buffer
	asked  bool // we stopped it ourselves
	conn   *grpc.ClientConn
	join   []string // the --join addresses of its command line (the same on every start, as under a supervisor)
}

type srvCluster struct {
	// catalogue bookkeeping for the oracles: a Create that returned an error may still have been
	// committed (an unacknowledged write may take effect), so listings may hold datasets nobody was
	// told about — but never one whose deletion was acknowledged, and always every acknowledged one
	deletedAcked  map[string]bool
	failedCreates int

	c     *Ctx
	out   *srvOut
	prop  string
	base  string
	nodes map[uint64]*srvNode
	order []uint64
}

// srvOut: the scenario controller runs in the engine's own process (it only holds gRPC clients and
// process handles); it writes straight into the Ctx
type srvOut struct{ c *Ctx }

func (o *srvOut) Begin(label string)                { o.c.Begin(label) }
func (o *srvOut) End()                              { o.c.End() }
func (o *srvOut) Local(f string, a ...interface{})  { o.c.OpLocal(f, a...) }
func (o *srvOut) Nontrivial(kind string)            { o.c.Nontrivial(kind) }
func (o *srvOut) Violate(prop, sig, what string)    { o.c.Violate(prop, sig, what, o.c.History()) }

func freePort() string {
	l, err := net.Listen("tcp", "127.0.0.1:0")
	if err != nil {
		panic(err)
	}
	defer l.Close()
	_, port, _ := net.SplitHostPort(l.Addr().String())
	return port
}

func newSrvCluster(c *Ctx, prop string) *srvCluster {
	base := os.Getenv("VERIF_TMP")
	if base == "" {
		base = os.TempDir()
	}
	dir, err := ioutil.TempDir(base, "verif-servers-")
	if err != nil {
		panic(err)
	}
	return &srvCluster{c: c, out: &srvOut{c}, prop: prop, base: dir, nodes: map[uint64]*srvNode{}}
}

func (c *srvCluster) addr(id uint64) string { return net.JoinHostPort("127.0.0.1", c.nodes[id].port) }

// start (or restart) node id; join = ids of members to join through. The command line of a member does
// not change between starts (cmd/anndb under a supervisor): a restart joins through the same addresses
// again. A start that fails in JoinCluster (nobody answers yet) is retried, as a supervisor would.
func (c *srvCluster) start(id uint64, join ...uint64) error {
	n := c.nodes[id]
	if n == nil {
		n = &srvNode{id: id, port: freePort(), dir: fmt.Sprintf("%s/node-%d", c.base, id)}
		os.MkdirAll(n.dir, 0755)
		c.nodes[id] = n
		c.order = append(c.order, id)
		for _, j := range join {
			n.join = append(n.join, c.addr(j))
		}
	}
	deadline := time.Now().Add(100 * time.Second)
	var err error
	for attempt := 1; ; attempt++ {
		if err = c.startOnce(n); err == nil || !strings.HasPrefix(err.Error(), "JoinCluster:") || time.Now().After(deadline) {
			break
		}
		c.out.Local("start of node %d, attempt %d: %v (retrying)", id, attempt, err)
		time.Sleep(time.Second)
	}
	if err != nil {
		return err
	}
	if n.conn == nil {
		conn, err := grpc.Dial(c.addr(id), grpc.WithInsecure())
		if err != nil {
			return err
		}
		n.conn = conn
	}
	return nil
}

func (c *srvCluster) startOnce(n *srvNode) error {
	id := n.id
	args := append([]string{"child", "-seed", "0", "servers-node", fmt.Sprint(id), n.port, n.dir}, n.join...)
	cmd := exec.Command(os.Args[0], args...)
	n.stderr = &bytes.Buffer{}
	cmd.Stderr = n.stderr
	stdin, err := cmd.StdinPipe()
	if err != nil {
		return err
	}
	stdout, err := cmd.StdoutPipe()
	if err != nil {
		return err
	}
	if err := cmd.Start(); err != nil {
		return err
	}
	n.cmd, n.stdin, n.asked = cmd, stdin, false
	n.lines = make(chan string, 64)
	n.exited = make(chan struct{})
	go func(lines chan string, exited chan struct{}) {
		sc := bufio.NewScanner(stdout)
		sc.Buffer(make([]byte, 1<<20), 1<<24)
		for sc.Scan() {
			select {
			case lines <- sc.Text():
			default:
			}
		}
		cmd.Wait()
		close(exited)
	}(n.lines, n.exited)
	select {
	case l := <-n.lines:
		if l != "READY" {
			c.kill(id)
			return fmt.Errorf("%s", l)
		}
	case <-n.exited:
		n.cmd = nil
		select {
		case l := <-n.lines:
			return fmt.Errorf("%s", l)
		default:
		}
		return fmt.Errorf("the node's process ended while starting: %s", c.reason(n))
	case <-time.After(90 * time.Second):
		c.kill(id)
		return fmt.Errorf("the node did not finish starting (Run + JoinCluster) within 90 s")
	}
	return nil
}

// nodeLog: the lines of a member's own log that tell what it did to its catalogue
func (c *srvCluster) nodeLog(id uint64, max int) string {
	d := os.Getenv("VERIF_SRVLOG")
	if d == "" {
		d = c.base
	}
	b, err := ioutil.ReadFile(fmt.Sprintf("%s/node-%d.log", d, id))
	if err != nil {
		return ""
	}
	var keep []string
	for _, l := range strings.Split(string(b), "\n") {
		if strings.HasPrefix(l, "==== start") || strings.Contains(l, "Create dataset") || strings.Contains(l, "napshot") || strings.Contains(l, "level=error") || strings.Contains(l, "level=fatal") || strings.Contains(l, "Unloaded") || strings.Contains(l, "became leader") || strings.Contains(l, "elected leader") {
			if i := strings.Index(l, "msg="); i >= 0 {
				l = l[i:]
			}
			keep = append(keep, clip(l, 160))
		}
	}
	if len(keep) > max {
		keep = keep[len(keep)-max:]
	}
	return strings.Join(keep, " | ")
}

func (c *srvCluster) reason(n *srvNode) string {
	e := n.stderr.String()
	for _, l := range strings.Split(e, "\n") {
		if strings.HasPrefix(l, "panic:") || strings.HasPrefix(l, "fatal error:") || strings.HasPrefix(l, "log.Fatal in the code under test") {
			return clip(l, 500) + " | ... | " + clip(lastLines(e, 14), 2500)
		}
	}
	return clip(lastLines(e, 8), 1500)
}

// ask sends one command line and waits for the answer line
func (c *srvCluster) ask(id uint64, cmd string, d time.Duration) string {
	n := c.nodes[id]
	if n == nil || n.cmd == nil {
		return "down"
	}
	for len(n.lines) > 0 {
		<-n.lines
	}
	fmt.Fprintln(n.stdin, cmd)
	select {
	case l := <-n.lines:
		return l
	case <-n.exited:
		return "exited"
	case <-time.After(d):
		return "no answer"
	}
}

func (c *srvCluster) kill(id uint64) {
	n := c.nodes[id]
	if n == nil || n.cmd == nil {
		return
	}
	n.asked = true
	n.cmd.Process.Kill()
	<-n.exited
	n.cmd = nil
}

// stop: graceful (Server.Stop in the node, then exit) with a SIGKILL after 10 s, or SIGKILL at once
func (c *srvCluster) stop(id uint64, hard bool) {
	n := c.nodes[id]
	if n == nil || n.cmd == nil {
		return
	}
	n.asked = true
	if !hard {
		fmt.Fprintln(n.stdin, "stop")
		select {
		case <-n.exited:
			n.cmd = nil
			return
		case <-time.After(10 * time.Second):
		}
	}
	c.kill(id)
}

func (c *srvCluster) up(id uint64) bool { return c.nodes[id] != nil && c.nodes[id].cmd != nil }

// died reports members whose process ended although nobody stopped them
func (c *srvCluster) died() bool {
	bad := false
	for _, id := range c.order {
		n := c.nodes[id]
		if n.cmd == nil || n.asked {
			continue
		}
		select {
		case <-n.exited:
			c.out.Violate(c.prop, c.prop+"/servers/node-died", fmt.Sprintf("member %d's server process ended by itself: %s", id, c.reason(n)))
			n.cmd = nil
			bad = true
		default:
		}
	}
	return bad
}

func (c *srvCluster) live() []uint64 {
	var r []uint64
	for _, id := range c.order {
		if c.up(id) {
			r = append(r, id)
		}
	}
	return r
}

func (c *srvCluster) close() {
	c.died()
	for _, id := range c.live() {
		c.kill(id)
	}
	for _, n := range c.nodes {
		if n.conn != nil {
			n.conn.Close()
		}
	}
	os.RemoveAll(c.base)
}

// childServerNode: one real server, as cmd/anndb runs it, plus a command line on stdin
func childServerNode(args []string) {
	id, _ := strconv.ParseUint(args[0], 10, 64)
	cfg := &anndb.Config{RaftNodeId: id, Port: args[1], DataDir: args[2], JoinNodes: args[3:]}
	log.SetOutput(ioutil.Discard)
	{ // the node's own log, appended across restarts, next to its data directory (quoted in findings)
		d := os.Getenv("VERIF_SRVLOG")
		if d == "" {
			d = filepath.Dir(args[2])
		}
		if f, err := os.OpenFile(fmt.Sprintf("%s/node-%d.log", d, id), os.O_APPEND|os.O_CREATE|os.O_WRONLY, 0644); err == nil {
			log.SetOutput(f)
			fmt.Fprintf(f, "==== start %v\n", args)
		}
	}
	s := anndb.NewServer(cfg)
	if err := s.Run(); err != nil {
		fmt.Println("Run: " + strings.ReplaceAll(err.Error(), "\n", " "))
		os.Exit(3)
	}
	if err := s.JoinCluster(); err != nil {
		fmt.Println("JoinCluster: " + strings.ReplaceAll(err.Error(), "\n", " "))
		os.Exit(3)
	}
	fmt.Println("READY")
	sc := bufio.NewScanner(os.Stdin)
	for sc.Scan() {
		switch strings.TrimSpace(sc.Text()) {
		case "snapshot":
			err := s.VerifZeroGroup().VerifSnapshotNow()
			fmt.Println("SNAP " + strings.ReplaceAll(fmt.Sprint(err), "\n", " "))
		case "leader":
			fmt.Println("LEADER " + fmt.Sprint(s.VerifZeroGroup().LeaderId()))
		case "applied":
			st := s.VerifZeroGroup().VerifStatus()
			fmt.Printf("APPLIED %d %d\n", st.Applied, st.Commit)
		case "stacks":
			fmt.Println("STACKS " + strings.ReplaceAll(goroutineDump(), "\n", " | "))
		case "stop":
			atomic.AddInt32(&shuttingDown, 1)
			done := make(chan struct{})
			go func() { defer close(done); defer func() { recover() }(); s.Stop() }()
			select {
			case <-done:
			case <-time.After(6 * time.Second):
			}
			os.Exit(0)
		}
	}
	os.Exit(0) // the controller went away
}

// ---- catalogue operations through gRPC

func (c *srvCluster) create(via uint64, dim, parts, repl uint32) (*pb.Dataset, error) {
	ctx, cancel := context.WithTimeout(context.Background(), 8*time.Second)
	defer cancel()
	return pb.NewDatasetManagerClient(c.nodes[via].conn).Create(ctx, &pb.Dataset{Dimension: dim, Space: pb.Space_Euclidean, PartitionCount: parts, ReplicationFactor: repl})
}

// createPatiently retries for a while (a freshly started member may have no leader yet)
func (c *srvCluster) createPatiently(via uint64, dim, parts, repl uint32, patience time.Duration) (*pb.Dataset, int, error) {
	deadline := time.Now().Add(patience)
	attempts := 0
	var last error
	for time.Now().Before(deadline) {
		attempts++
		d, err := c.create(via, dim, parts, repl)
		if err == nil {
			return d, attempts, nil
		}
		c.failedCreates++
		c.out.Local("create via %d, attempt %d: %v (it may have been committed all the same)", via, attempts, err)
		last = err
		time.Sleep(400 * time.Millisecond)
	}
	return nil, attempts, last
}

func (c *srvCluster) delete(via uint64, id []byte) error {
	ctx, cancel := context.WithTimeout(context.Background(), 8*time.Second)
	defer cancel()
	_, err := pb.NewDatasetManagerClient(c.nodes[via].conn).Delete(ctx, &pb.UUIDRequest{Id: id})
	if err == nil {
		if c.deletedAcked == nil {
			c.deletedAcked = map[string]bool{}
		}
		c.deletedAcked[shortId(id)] = true
	}
	return err
}

// matches: a listing against the acknowledged history — every dataset of `want` is listed, none whose
// deletion was acknowledged is, and anything else only if some Create call failed (its effect is unknown)
func (c *srvCluster) matches(listed, want []string) bool {
	have := map[string]bool{}
	for _, l := range listed {
		have[l] = true
		if c.deletedAcked[l] {
			return false
		}
	}
	for _, w := range want {
		if !have[w] {
			return false
		}
	}
	return len(listed) == len(want) || (c.failedCreates > 0 && len(listed) <= len(want)+c.failedCreates)
}

// list returns the node's catalogue as canonical lines "id dim space p1:n1,n2;p2:…" sorted by id
func (c *srvCluster) list(id uint64) ([]string, error) {
	ctx, cancel := context.WithTimeout(context.Background(), 5*time.Second)
	defer cancel()
	st, err := pb.NewDatasetManagerClient(c.nodes[id].conn).List(ctx, &pb.ListDatasetsRequest{})
	if err != nil {
		return nil, err
	}
	var out []string
	for {
		d, err := st.Recv()
		if err == io.EOF {
			break
		}
		if err != nil {
			return nil, err
		}
		out = append(out, canonDataset(d))
	}
	sort.Strings(out)
	return out, nil
}

func canonDataset(d *pb.Dataset) string {
	var ps []string
	for _, p := range d.GetPartitions() {
		ns := append([]uint64{}, p.GetNodeIds()...)
		sort.Slice(ns, func(a, b int) bool { return ns[a] < ns[b] })
		var ss []string
		for _, n := range ns {
			ss = append(ss, fmt.Sprint(n))
		}
		ps = append(ps, fmt.Sprintf("%x:%s", p.GetId()[:4], strings.Join(ss, ",")))
	}
	// the partitions stay in catalogue order: routing is positional
	return fmt.Sprintf("%x dim=%d space=%d parts=%d repl=%d [%s]", d.GetId()[:6], d.GetDimension(), int(d.GetSpace()), d.GetPartitionCount(), d.GetReplicationFactor(), strings.Join(ps, ";"))
}

// idsOf: just the dataset ids of canonical lines
func idsOf(lines []string) []string {
	var r []string
	for _, l := range lines {
		r = append(r, strings.SplitN(l, " ", 2)[0])
	}
	return r
}

func (c *srvCluster) members(id uint64) ([]string, error) {
	ctx, cancel := context.WithTimeout(context.Background(), 5*time.Second)
	defer cancel()
	st, err := pb.NewNodesManagerClient(c.nodes[id].conn).ListNodes(ctx, &pb.EmptyMessage{})
	if err != nil {
		return nil, err
	}
	var out []string
	for {
		n, err := st.Recv()
		if err == io.EOF {
			break
		}
		if err != nil {
			return nil, err
		}
		out = append(out, fmt.Sprintf("%d@%s", n.GetId(), portOf(n.GetAddress())))
	}
	sort.Strings(out)
	return out, nil
}

func portOf(addr string) string {
	if i := strings.LastIndexByte(addr, ':'); i >= 0 {
		return addr[i+1:]
	}
	return addr
}

func (c *srvCluster) removeMember(via, id uint64) error {
	ctx, cancel := context.WithTimeout(context.Background(), 20*time.Second)
	defer cancel()
	_, err := pb.NewNodesManagerClient(c.nodes[via].conn).RemoveNode(ctx, &pb.Node{Id: id})
	return err
}

// snapshotNow makes every live member cut a snapshot of the zero group at its applied index and
// compact its log (what the 10 s ticker does once 5000 entries have gone by)
func (c *srvCluster) snapshotNow() {
	for _, id := range c.live() {
		c.out.Local("node %d: zero group snapshot + compaction now -> %s", id, c.ask(id, "snapshot", 30*time.Second))
	}
}

// agree waits until every listed member reports the same catalogue lines; returns them per node
func (c *srvCluster) agree(ids []uint64, want []string, patience time.Duration) (map[uint64][]string, bool) {
	got := map[uint64][]string{}
	ok := waitForSlow(patience, func() bool {
		if c.died() {
			patience = 0
			return true // reported; the caller sees !ok below
		}
		for _, id := range ids {
			l, err := c.list(id)
			if err != nil {
				got[id] = []string{"error: " + err.Error()}
				return false
			}
			got[id] = l
		}
		for _, id := range ids {
			if want != nil {
				if !c.matches(idsOf(got[id]), want) {
					return false
				}
			}
			if strings.Join(got[id], "|") != strings.Join(got[ids[0]], "|") {
				return false
			}
		}
		return true
	})
	if ok { // (a death ends the wait early)
		for _, id := range ids {
			if !c.up(id) {
				ok = false
			}
		}
	}
	return got, ok
}

func waitForSlow(d time.Duration, cond func() bool) bool {
	deadline := time.Now().Add(d)
	for time.Now().Before(deadline) {
		if cond() {
			return true
		}
		time.Sleep(150 * time.Millisecond)
	}
	return cond()
}

func fmtLists(m map[uint64][]string) string {
	var ids []uint64
	for id := range m {
		ids = append(ids, id)
	}
	sort.Slice(ids, func(a, b int) bool { return ids[a] < ids[b] })
	var ss []string
	for _, id := range ids {
		ss = append(ss, fmt.Sprintf("node %d: %v", id, idsOf(m[id])))
	}
	return strings.Join(ss, "; ")
}

func shortId(b []byte) string { return fmt.Sprintf("%x", b[:6]) }

// ---------------------------------------------------------------- child

// start n members: node 1 alone, the others join through it
func (c *srvCluster) boot(n int) error {
	if err := c.start(1); err != nil {
		return fmt.Errorf("node 1: %v", err)
	}
	for id := uint64(2); id <= uint64(n); id++ {
		if err := c.start(id, 1); err != nil {
			return fmt.Errorf("node %d: %v", id, err)
		}
	}
	return nil
}

// ---- C14: a lagging member is caught up by the leader's snapshot
func srvCatalogueLagging(cx *Ctx, emptyAtSnapshot, hard bool) {
	c := newSrvCluster(cx, "C14")
	out := c.out
	out.Begin(fmt.Sprintf("servers catalogue-lagging emptyAtSnapshot=%v hardStop=%v", emptyAtSnapshot, hard))
	defer out.End()
	defer c.close()
	if err := c.boot(3); err != nil {
		out.Local("set-up failed: %v", err)
		return
	}
	a, _, err := c.createPatiently(1, 2, 2, 2, 30*time.Second)
	if err != nil {
		out.Local("set-up: create failed: %v", err)
		return
	}
	var keep *pb.Dataset
	want := []string{shortId(a.GetId())}
	if !emptyAtSnapshot {
		if keep, _, err = c.createPatiently(2, 3, 1, 1, 20*time.Second); err != nil {
			out.Local("set-up: second create failed: %v", err)
			return
		}
		want = append(want, shortId(keep.GetId()))
		sort.Strings(want)
	}
	if got, ok := c.agree([]uint64{1, 2, 3}, want, 40*time.Second); !ok {
		out.Violate("C14", "C14/servers/not-listed-everywhere", "an acknowledged dataset creation is not listed identically by all three members after 40 s: "+fmtLists(got))
		return
	}
	out.Local("3 members list %v", want)
	c.stop(3, hard)
	out.Local("member 3 stopped")
	if err := c.delete(1, a.GetId()); err != nil {
		out.Local("delete failed: %v", err)
		return
	}
	want = nil
	if keep != nil {
		want = []string{shortId(keep.GetId())}
	}
	if want == nil {
		want = []string{}
	}
	if got, ok := c.agree([]uint64{1, 2}, want, 30*time.Second); !ok {
		out.Violate("C14", "C14/servers/delete-not-applied", "an acknowledged deletion is still listed by a running member after 30 s: "+fmtLists(got))
		return
	}
	out.Local("dataset %s deleted (acknowledged); members 1 and 2 list %v; now they compact the zero group's log", shortId(a.GetId()), want)
	c.snapshotNow()
	// something after the snapshot, so that the returning member visibly catches up
	b, _, err := c.createPatiently(2, 2, 1, 1, 20*time.Second)
	if err != nil {
		out.Local("create after the snapshot failed: %v", err)
		return
	}
	want = append(want, shortId(b.GetId()))
	sort.Strings(want)
	if err := c.start(3); err != nil {
		out.Violate("C14", "C14/servers/restart-fails", fmt.Sprintf("member 3 does not start again over its data directory: %v", err))
		return
	}
	out.Local("member 3 restarted; it is behind the others' first log index and is caught up by a snapshot")
	got, ok := c.agree([]uint64{1, 2, 3}, want, 60*time.Second)
	out.Nontrivial("lagging-member-snapshot")
	if !ok {
		out.Violate("C14", "C14/servers/lagging-member-differs", fmt.Sprintf("a member that was down while a dataset was deleted (catalogue empty at the snapshot: %v) and the others compacted their log does not list what they list 60 s after coming back; acknowledged catalogue %v; %s; member 3's own log: %s", emptyAtSnapshot, want, fmtLists(got), c.nodeLog(3, 40)))
		return
	}
	// and once more after a restart of the member that was caught up by the snapshot
	c.stop(3, !hard)
	if err := c.start(3); err != nil {
		out.Violate("C14", "C14/servers/restart-fails", fmt.Sprintf("member 3 does not start again: %v", err))
		return
	}
	if got, ok := c.agree([]uint64{1, 2, 3}, want, 60*time.Second); !ok {
		out.Violate("C14", "C14/servers/restart-differs", "after another restart the member lists something else than the others: "+fmtLists(got))
	}
}

// ---- C14: random catalogue histories with a member down, forced compaction, restarts
func srvCatalogueRandom(cx *Ctx, r *Rng, thorough bool) {
	c := newSrvCluster(cx, "C14")
	out := c.out
	out.Begin("servers catalogue-random")
	defer out.End()
	defer c.close()
	if err := c.boot(3); err != nil {
		out.Local("set-up failed: %v", err)
		return
	}
	acked := map[string][]byte{} // short id -> id
	down := uint64(0)
	steps := 10
	if thorough {
		steps = 24
	}
	wantList := func() []string {
		var w []string
		for k := range acked {
			w = append(w, k)
		}
		sort.Strings(w)
		return w
	}
	for i := 0; i < steps; i++ {
		live := c.live()
		via := live[r.Intn(len(live))]
		switch k := r.Intn(10); {
		case k < 3:
			d, _, err := c.createPatiently(via, uint32(1+r.Intn(4)), uint32(1+r.Intn(3)), uint32(1+r.Intn(3)), 20*time.Second)
			out.Local("create via %d -> %v", via, err)
			if err == nil {
				acked[shortId(d.GetId())] = d.GetId()
			}
		case k < 6 && len(acked) > 0:
			ks := wantList()
			key := ks[r.Intn(len(ks))]
			err := c.delete(via, acked[key])
			out.Local("delete %s via %d -> %v", key, via, err)
			if err == nil {
				delete(acked, key)
			} else {
				// unknown whether it was applied: settle it before going on
				waitForSlow(10*time.Second, func() bool { return c.delete(via, acked[key]) != nil })
				if l, e := c.list(via); e == nil && !strings.Contains(strings.Join(idsOf(l), " "), key) {
					delete(acked, key)
				}
			}
		case k < 8:
			if down == 0 {
				// never the member the others would need for a quorum of 3: one at a time
				down = live[r.Intn(len(live))]
				c.stop(down, r.Intn(2) == 0)
				out.Local("member %d stopped", down)
			} else {
				err := c.start(down)
				out.Local("member %d restarted -> %v", down, err)
				if err != nil {
					out.Violate("C14", "C14/servers/restart-fails", fmt.Sprintf("member %d does not start again over its data directory: %v", down, err))
					return
				}
				down = 0
				out.Nontrivial("member-restart")
			}
		default:
			c.snapshotNow()
		}
	}
	if down != 0 {
		if err := c.start(down); err != nil {
			out.Violate("C14", "C14/servers/restart-fails", fmt.Sprintf("member %d does not start again: %v", down, err))
			return
		}
	}
	want := wantList()
	got, ok := c.agree(c.live(), want, 60*time.Second)
	out.Local("acknowledged catalogue %v; %s", want, fmtLists(got))
	if !ok {
		out.Violate("C14", "C14/servers/members-differ", fmt.Sprintf("after the history every member must list the acknowledged catalogue %v with identical dimension, metric, partitions and replicas; after 60 s: %s", want, fmtLists(got)))
		return
	}
	before := strings.Join(got[1], "|")
	// restart of the whole cluster: everybody replays its log / restores its snapshot
	for _, id := range []uint64{1, 2, 3} {
		c.stop(id, r.Intn(2) == 0)
	}
	var wg sync.WaitGroup
	errs := make([]error, 4)
	for _, id := range []uint64{1, 2, 3} {
		wg.Add(1)
		go func(id uint64) { defer wg.Done(); errs[id] = c.start(id) }(id)
	}
	wg.Wait()
	for id, e := range errs {
		if e != nil {
			out.Violate("C14", "C14/servers/restart-fails", fmt.Sprintf("member %d does not start again after a restart of the whole cluster: %v", id, e))
			return
		}
	}
	got, ok = c.agree([]uint64{1, 2, 3}, want, 60*time.Second)
	out.Nontrivial("cluster-restart")
	if !ok || strings.Join(got[1], "|") != before {
		out.Violate("C14", "C14/servers/restart-differs", fmt.Sprintf("after a restart of the whole cluster the members do not list the catalogue they listed before (%v): %s", want, fmtLists(got)))
	}
}

// ---- C14 / C18: a node whose catalogue log holds creations followed by deletions restarts: the replay
// creates each dataset (its partitions' raft groups start) and deletes it again at once (they are
// stopped and their logs wiped); the node must come through it, list the acknowledged catalogue and
// go on serving
func srvReplayCreateDelete(cx *Ctx, prop string, r *Rng) {
	c := newSrvCluster(cx, prop)
	out := c.out
	out.Begin("servers replay of creations and deletions (" + prop + ")")
	defer out.End()
	defer c.close()
	if err := c.start(1); err != nil {
		out.Local("set-up failed: %v", err)
		return
	}
	keep, _, err := c.createPatiently(1, 2, 2, 1, 30*time.Second)
	if err != nil {
		out.Local("set-up: create failed: %v", err)
		return
	}
	n := 0
	for i := 0; i < cx.Pick(30, 80); i++ {
		d, _, err := c.createPatiently(1, uint32(1+r.Intn(3)), uint32(1+r.Intn(6)), 1, 20*time.Second)
		if err != nil {
			out.Local("create failed: %v", err)
			continue
		}
		if err := c.delete(1, d.GetId()); err != nil {
			out.Local("delete failed: %v", err)
			return
		}
		n++
	}
	want := []string{shortId(keep.GetId())}
	out.Local("one node: a dataset that stays, and %d datasets created and deleted again (all acknowledged)", n)
	for round := 0; round < 4; round++ {
		c.stop(1, round%2 == 0)
		if err := c.start(1); err != nil {
			out.Violate(prop, prop+"/servers/restart-fails", fmt.Sprintf("the node does not start again over its data directory (its catalogue log holds %d creations each followed by the deletion of that dataset): %v", n, err))
			return
		}
		out.Nontrivial("replay-create-delete")
		got, ok := c.agree([]uint64{1}, want, 40*time.Second)
		if c.died() {
			return
		}
		if !ok {
			out.Violate(prop, prop+"/servers/restart-differs", fmt.Sprintf("after restart %d the node does not list the acknowledged catalogue %v within 40 s: %s", round+1, want, fmtLists(got)))
			return
		}
		// it goes on serving: another creation and deletion
		d, _, err := c.createPatiently(1, 2, 3, 1, 30*time.Second)
		if c.died() {
			return
		}
		if err != nil {
			out.Violate(prop, prop+"/servers/not-serving-after-restart", fmt.Sprintf("after restart %d the node lists its catalogue but does not apply a new creation within 30 s: %v", round+1, err))
			return
		}
		if err := c.delete(1, d.GetId()); err != nil {
			out.Local("delete after restart failed: %v", err)
		}
		n++
		time.Sleep(300 * time.Millisecond)
		if c.died() {
			return
		}
	}
}

// ---- C18: a restarted node with datasets and a late-joined peer keeps applying catalogue changes
func srvRestartServing(cx *Ctx, hard bool) {
	c := newSrvCluster(cx, "C18")
	out := c.out
	out.Begin(fmt.Sprintf("servers restart-serving hardStop=%v", hard))
	defer out.End()
	defer c.close()
	if err := c.start(1); err != nil {
		out.Local("set-up failed: %v", err)
		return
	}
	first, _, err := c.createPatiently(1, 4, 1, 3, 30*time.Second)
	if err != nil {
		out.Local("set-up: create failed: %v", err)
		return
	}
	if err := c.start(2, 1); err != nil {
		out.Local("set-up: node 2 failed to join: %v", err)
		return
	}
	replicas := func(via uint64) int {
		ctx, cancel := context.WithTimeout(context.Background(), 2*time.Second)
		defer cancel()
		d, err := pb.NewDatasetManagerClient(c.nodes[via].conn).Get(ctx, &pb.GetDatasetRequest{DatasetId: first.GetId()})
		if err != nil || len(d.GetPartitions()) == 0 {
			return -1
		}
		return len(d.GetPartitions()[0].GetNodeIds())
	}
	if !waitForSlow(40*time.Second, func() bool { return replicas(1) == 2 && replicas(2) == 2 }) {
		out.Local("the under-replicated partition was not extended to the joining node within 40 s (replicas seen: %d, %d): scenario not reached", replicas(1), replicas(2))
		return
	}
	out.Local("node 1 created a dataset with replication factor 3 alone; node 2 joined and became its second replica")
	waitForSlow(10*time.Second, func() bool {
		ctx, cancel := context.WithTimeout(context.Background(), 2*time.Second)
		defer cancel()
		_, err := pb.NewDataManagerClient(c.nodes[1].conn).Insert(ctx, &pb.InsertRequest{DatasetId: first.GetId(), Id: uuid.NewV4().Bytes(), Value: []float32{1, 2, 3, 4}})
		return err == nil
	})
	c.stop(1, hard)
	if err := c.start(1); err != nil {
		out.Violate("C18", "C18/servers/restart-fails", fmt.Sprintf("node 1 does not start again with its datasets: %v", err))
		return
	}
	out.Local("node 1 restarted with its dataset")
	out.Nontrivial("restart-with-datasets")
	if !waitForSlow(40*time.Second, func() bool { return replicas(1) >= 2 }) {
		out.Violate("C18", "C18/servers/catalogue-not-replayed", fmt.Sprintf("40 s after its restart node 1 has not finished applying its catalogue (replicas of its partition: %d)", replicas(1)))
		return
	}
	time.Sleep(1500 * time.Millisecond) // the replayed membership notifications reach the allocator loop
	second, attempts, err := c.createPatiently(1, 2, 1, 1, 30*time.Second)
	if err != nil {
		out.Violate("C18", "C18/servers/control-plane-wedged", fmt.Sprintf("after restarting with an existing dataset and a peer that had joined after its creation, node 1 never applied another catalogue change: %d attempts to create a dataset over 30 s all failed (last error: %v); goroutines: %s", attempts, err, clip(c.ask(1, "stacks", 10*time.Second), 2500)))
		return
	}
	if _, ok := c.agree([]uint64{1, 2}, nil, 30*time.Second); !ok {
		out.Violate("C18", "C18/servers/control-plane-wedged", "the dataset created after the restart did not reach the peer within 30 s")
		return
	}
	out.Local("a dataset created through the restarted node after %d attempt(s) is listed by both (%s)", attempts, shortId(second.GetId()))
	// and a deletion, through the peer
	if err := c.delete(2, first.GetId()); err != nil {
		out.Violate("C18", "C18/servers/control-plane-wedged", fmt.Sprintf("deleting the first dataset through the peer failed: %v", err))
		return
	}
	if got, ok := c.agree([]uint64{1, 2}, []string{shortId(second.GetId())}, 30*time.Second); !ok {
		out.Violate("C18", "C18/servers/control-plane-wedged", "an acknowledged deletion was not applied by both nodes within 30 s: "+fmtLists(got))
	}
}

// ---- C16: placement uses current members only
func srvPlacementMembers(cx *Ctx) {
	c := newSrvCluster(cx, "C16")
	out := c.out
	out.Begin("servers placement-members")
	defer out.End()
	defer c.close()
	if err := c.boot(4); err != nil {
		out.Local("set-up failed: %v", err)
		return
	}
	all4 := func(id uint64) bool { m, err := c.members(id); return err == nil && len(m) == 4 }
	if !waitForSlow(40*time.Second, func() bool { return all4(1) && all4(2) && all4(3) && all4(4) }) {
		out.Local("the four members do not list each other within 40 s: scenario not reached")
		return
	}
	if err := c.removeMember(1, 4); err != nil {
		out.Local("removal of member 4 failed: %v", err)
		return
	}
	c.stop(4, false)
	out.Local("member 4 removed through member 1 (acknowledged) and shut down")
	out.Nontrivial("member-removed")
	checkPlacement := func(d *pb.Dataset, how string, R uint32) {
		want := int(R)
		if want > 3 {
			want = 3
		}
		for pi, p := range d.GetPartitions() {
			seen := map[uint64]bool{}
			for _, n := range p.GetNodeIds() {
				if n < 1 || n > 3 {
					out.Violate("C16", "C16/servers/non-member", fmt.Sprintf("%s after member 4's removal was acknowledged places partition %d on node %d; members are [1 2 3]", how, pi, n))
				}
				if seen[n] {
					out.Violate("C16", "C16/servers/duplicate-node", fmt.Sprintf("%s: partition %d lists node %d twice", how, pi, n))
				}
				seen[n] = true
			}
			if len(p.GetNodeIds()) != want {
				out.Violate("C16", "C16/servers/replica-count", fmt.Sprintf("%s, R=%d on 3 members: partition %d has %d replicas %v, expected %d", how, R, pi, len(p.GetNodeIds()), p.GetNodeIds(), want))
			}
		}
	}
	// a definition as a client might have read it back from another cluster or before the removal — id and
	// partitions (with their replica lists) filled in — sent to Create: a clone / restore script. Placement
	// is computed when the dataset is created, from the members of that moment; what the message carries in
	// those fields is not the client's to choose.
	{
		var parts []*pb.Partition
		for i := 0; i < 4; i++ {
			parts = append(parts, &pb.Partition{Id: uuid.NewV4().Bytes(), NodeIds: []uint64{4, uint64(1 + i%3), 9}})
		}
		ctx, cancel := context.WithTimeout(context.Background(), 8*time.Second)
		again, err := pb.NewDatasetManagerClient(c.nodes[3].conn).Create(ctx, &pb.Dataset{Id: uuid.NewV4().Bytes(), Dimension: 2, Space: pb.Space_Euclidean, PartitionCount: 4, ReplicationFactor: 3, Partitions: parts})
		cancel()
		if err != nil {
			out.Local("creating from a read-back definition failed: %v", err)
		} else {
			checkPlacement(again, "a dataset created from a definition that carries an id and replica lists naming nodes 4 and 9 (through member 3)", 3)
		}
	}
	for _, via := range []uint64{2, 3, 1} {
		for _, R := range []uint32{1, 2, 3, 5} {
			d, _, err := c.createPatiently(via, 2, 4, R, 20*time.Second)
			if err != nil {
				out.Local("create via %d (R=%d) failed: %v", via, R, err)
				continue
			}
			want := int(R)
			if want > 3 {
				want = 3
			}
			for pi, p := range d.GetPartitions() {
				seen := map[uint64]bool{}
				for _, n := range p.GetNodeIds() {
					if n < 1 || n > 3 {
						out.Violate("C16", "C16/servers/non-member", fmt.Sprintf("a dataset created through member %d after member 4's removal was acknowledged places partition %d on node %d; members are [1 2 3]", via, pi, n))
					}
					if seen[n] {
						out.Violate("C16", "C16/servers/duplicate-node", fmt.Sprintf("partition %d lists node %d twice", pi, n))
					}
					seen[n] = true
				}
				if len(p.GetNodeIds()) != want {
					out.Violate("C16", "C16/servers/replica-count", fmt.Sprintf("R=%d on 3 members: partition %d has %d replicas %v, expected %d", R, pi, len(p.GetNodeIds()), p.GetNodeIds(), want))
				}
			}
		}
	}
}

// ---- C20: membership through real servers
func srvMembership(cx *Ctx, hard bool) {
	c := newSrvCluster(cx, "C20")
	out := c.out
	out.Begin(fmt.Sprintf("servers membership hardStop=%v", hard))
	defer out.End()
	defer c.close()
	if err := c.boot(3); err != nil {
		out.Local("set-up failed: %v", err)
		return
	}
	want := func(ids ...uint64) []string {
		var w []string
		for _, id := range ids {
			w = append(w, fmt.Sprintf("%d@%s", id, c.nodes[id].port))
		}
		sort.Strings(w)
		return w
	}
	check := func(when string, asked []uint64, w []string) bool {
		got := map[uint64][]string{}
		ok := waitForSlow(45*time.Second, func() bool {
			for _, id := range asked {
				m, err := c.members(id)
				if err != nil {
					got[id] = []string{"error: " + err.Error()}
					return false
				}
				got[id] = m
				if strings.Join(m, " ") != strings.Join(w, " ") {
					return false
				}
			}
			return true
		})
		if !ok {
			c.died()
			out.Violate("C20", "C20/servers/members-differ", fmt.Sprintf("%s: every member must list %v; after 45 s: %v", when, w, got))
		}
		return ok
	}
	leaderIs := func(id uint64) bool { return c.ask(1, "leader", 5*time.Second) == fmt.Sprintf("LEADER %d", id) }
	// lagging: member `lag` is down while member `victim`'s removal (through member 1, the leader) is
	// acknowledged and the running members compact their logs; it comes back, is caught up by a snapshot,
	// and must not list the removed member. `lag` has applied the victim's join from its own log.
	lagging := func(lag, victim uint64, rest ...uint64) bool {
		if !leaderIs(1) {
			out.Local("member 1 is not the leader (%s): the removal phase is skipped", c.ask(1, "leader", 5*time.Second))
			return true
		}
		c.stop(lag, hard)
		out.Local("member %d stopped", lag)
		if err := c.removeMember(1, victim); err != nil {
			out.Local("removal of member %d failed: %v", victim, err)
			return false
		}
		c.stop(victim, false)
		var running, all []uint64
		for _, id := range rest {
			running = append(running, id)
		}
		all = append(append([]uint64{}, running...), lag)
		if !check(fmt.Sprintf("after member %d's removal was acknowledged (member %d is down)", victim, lag), running, want(all...)) {
			return false
		}
		c.snapshotNow()
		if err := c.start(lag); err != nil {
			out.Violate("C20", "C20/servers/restart-fails", fmt.Sprintf("member %d does not start again: %v", lag, err))
			return false
		}
		out.Local("member %d restarted; the others' logs no longer hold the removal: it is caught up by a snapshot", lag)
		out.Nontrivial("lagging-member-removal")
		return check(fmt.Sprintf("after member %d, down during member %d's removal and the compaction, came back", lag, victim), all, want(all...))
	}
	if !check("after two acknowledged joins", []uint64{1, 2, 3}, want(1, 2, 3)) {
		return
	}
	if !lagging(2, 3, 1) {
		return
	}
	if err := c.start(4, 2); err != nil {
		out.Local("node 4 failed to join through member 2: %v", err)
		return
	}
	if !check("after a third acknowledged join (through member 2)", []uint64{1, 2, 4}, want(1, 2, 4)) {
		return
	}
	c.snapshotNow()
	c.stop(2, hard)
	if err := c.start(2); err != nil {
		out.Violate("C20", "C20/servers/restart-fails", fmt.Sprintf("member 2 does not start again: %v", err))
		return
	}
	out.Nontrivial("member-restart-after-compaction")
	if !check("after member 2 restarted from its compacted log", []uint64{1, 2, 4}, want(1, 2, 4)) {
		return
	}
	if err := c.start(5, 1); err != nil {
		out.Local("node 5 failed to join through member 1: %v", err)
		return
	}
	if !check("after a fourth acknowledged join", []uint64{1, 2, 4, 5}, want(1, 2, 4, 5)) {
		return
	}
	lagging(4, 5, 1, 2)
}

// ---- C20: the leader joined after the snapshot it holds. Member 1 compacts its log while it is alone;
// members 2 and 3 join (each is brought up to date with that snapshot plus the entries after it);
// member 1 stops, so 2 or 3 leads; member 4 joins: the leader has to send it the only snapshot it
// holds — whose address book lists member 1 alone. Member 4 knows everybody from the join handshake;
// it must still do so (and catch up) after installing that snapshot.
func srvMembershipLateLeader(cx *Ctx) {
	c := newSrvCluster(cx, "C20")
	out := c.out
	out.Begin("servers membership: the leader joined after the snapshot it holds")
	defer out.End()
	defer c.close()
	if err := c.start(1); err != nil {
		out.Local("set-up failed: %v", err)
		return
	}
	if _, _, err := c.createPatiently(1, 2, 1, 1, 30*time.Second); err != nil { // something to snapshot
		out.Local("set-up: create failed: %v", err)
		return
	}
	c.snapshotNow()
	for _, id := range []uint64{2, 3} {
		if err := c.start(id, 1); err != nil {
			out.Local("set-up: node %d failed to join: %v", id, err)
			return
		}
	}
	want := func(ids ...uint64) []string {
		var w []string
		for _, id := range ids {
			w = append(w, fmt.Sprintf("%d@%s", id, c.nodes[id].port))
		}
		sort.Strings(w)
		return w
	}
	listed := func(asked []uint64, w []string, d time.Duration) (map[uint64][]string, bool) {
		got := map[uint64][]string{}
		ok := waitForSlow(d, func() bool {
			for _, id := range asked {
				m, err := c.members(id)
				if err != nil {
					got[id] = []string{"error: " + err.Error()}
					return false
				}
				got[id] = m
				if strings.Join(m, " ") != strings.Join(w, " ") {
					return false
				}
			}
			return true
		})
		return got, ok
	}
	if got, ok := listed([]uint64{1, 2, 3}, want(1, 2, 3), 45*time.Second); !ok {
		out.Violate("C20", "C20/servers/members-differ", fmt.Sprintf("after two acknowledged joins every member must list %v; after 45 s: %v", want(1, 2, 3), got))
		return
	}
	c.stop(1, false)
	var leader string
	if !waitForSlow(30*time.Second, func() bool { leader = c.ask(2, "leader", 5*time.Second); return leader == "LEADER 2" || leader == "LEADER 3" }) {
		out.Local("members 2 and 3 elected no leader within 30 s after member 1 stopped (%s): scenario not reached", leader)
		return
	}
	out.Local("member 1 (the only one that has cut a snapshot) stopped; %s", leader)
	join := uint64(2)
	if err := c.start(4, join); err != nil {
		out.Violate("C20", "C20/servers/join-fails", fmt.Sprintf("node 4 cannot join through member %d while members 2 and 3 (a quorum of 3) are up: %v", join, err))
		return
	}
	out.Nontrivial("late-leader-snapshot")
	if got, ok := listed([]uint64{2, 3, 4}, want(1, 2, 3, 4), 45*time.Second); !ok {
		c.died()
		out.Violate("C20", "C20/servers/joiner-cut-off", fmt.Sprintf("node 4's join was acknowledged; the leader (%s) joined after the only snapshot it holds, so the snapshot it sent node 4 lists neither leader nor member 3. 45 s later the members list: %v (expected %v everywhere); node 4's own log: %s", leader, got, want(1, 2, 3, 4), c.nodeLog(4, 25)))
		return
	}
	if err := c.start(1); err != nil {
		out.Violate("C20", "C20/servers/restart-fails", fmt.Sprintf("member 1 does not start again: %v", err))
		return
	}
	if got, ok := listed([]uint64{1, 2, 3, 4}, want(1, 2, 3, 4), 45*time.Second); !ok {
		out.Violate("C20", "C20/servers/members-differ", fmt.Sprintf("after member 1 came back every member must list %v; after 45 s: %v", want(1, 2, 3, 4), got))
	}
}

// ---- C20: a member is removed and later joins again under the same id, while a dataset has replicas
// everywhere; then another member restarts. What the restarted member lists comes from the zero group's
// log (and snapshot) alone: the partitions' own raft groups saw the member leave their replica sets, but
// their logs do not feed the address book.
func srvMembershipRejoin(cx *Ctx, hard bool) {
	c := newSrvCluster(cx, "C20")
	out := c.out
	out.Begin(fmt.Sprintf("servers membership: removed member joins again, another member restarts (hardStop=%v)", hard))
	defer out.End()
	defer c.close()
	if err := c.boot(3); err != nil {
		out.Local("set-up failed: %v", err)
		return
	}
	want := func(ids ...uint64) []string {
		var w []string
		for _, id := range ids {
			w = append(w, fmt.Sprintf("%d@%s", id, c.nodes[id].port))
		}
		sort.Strings(w)
		return w
	}
	check := func(when string, asked []uint64, w []string) bool {
		got := map[uint64][]string{}
		ok := waitForSlow(45*time.Second, func() bool {
			for _, id := range asked {
				m, err := c.members(id)
				if err != nil {
					got[id] = []string{"error: " + err.Error()}
					return false
				}
				got[id] = m
				if strings.Join(m, " ") != strings.Join(w, " ") {
					return false
				}
			}
			return true
		})
		if !ok {
			c.died()
			out.Violate("C20", "C20/servers/members-differ", fmt.Sprintf("%s: every member must list %v; after 45 s: %v", when, w, got))
		}
		return ok
	}
	if !check("after two acknowledged joins", []uint64{1, 2, 3}, want(1, 2, 3)) {
		return
	}
	ds, _, err := c.createPatiently(1, 2, 6, 3, 30*time.Second)
	if err != nil {
		out.Local("set-up: create failed: %v", err)
		return
	}
	sortTwo := func(a, b string) []string {
		if a > b {
			return []string{b, a}
		}
		return []string{a, b}
	}
	_ = sortTwo
	replicas := func(via uint64) string {
		ctx, cancel := context.WithTimeout(context.Background(), 2*time.Second)
		defer cancel()
		d, err := pb.NewDatasetManagerClient(c.nodes[via].conn).Get(ctx, &pb.GetDatasetRequest{DatasetId: ds.GetId()})
		if err != nil {
			return "error"
		}
		var ss []string
		for _, p := range d.GetPartitions() {
			ss = append(ss, fmt.Sprint(len(p.GetNodeIds())))
		}
		return strings.Join(ss, ",")
	}
	time.Sleep(time.Second) // the partitions' raft groups start and elect
	if c.ask(1, "leader", 5*time.Second) != "LEADER 1" {
		out.Local("member 1 is not the zero group's leader: scenario skipped")
		return
	}
	if err := c.removeMember(1, 3); err != nil {
		out.Local("removal of member 3 failed: %v", err)
		return
	}
	c.stop(3, false)
	if !check("after member 3's removal was acknowledged", []uint64{1, 2}, want(1, 2)) {
		return
	}
	waitForSlow(20*time.Second, func() bool { return replicas(1) == "2,2,2,2,2,2" })
	out.Local("member 3 removed (acknowledged) and shut down; replicas per partition as member 1 lists them: %s", replicas(1))
	if err := c.start(3); err != nil {
		out.Violate("C20", "C20/servers/rejoin-fails", fmt.Sprintf("the removed node cannot join again under its id: %v", err))
		return
	}
	if !check("after the removed member joined again (acknowledged)", []uint64{1, 2, 3}, want(1, 2, 3)) {
		return
	}
	waitForSlow(15*time.Second, func() bool { return replicas(1) == "3,3,3,3,3,3" })
	out.Local("member 3 joined again; replicas per partition: %s", replicas(1))
	// listing each other is not all: the member that came back must also be *reached* — it applies what
	// the leader has committed since (asked of the zero groups directly: no catalogue change is made here,
	// the allocators are busy giving the member its replicas back)
	appliedOf := func(id uint64) (uint64, uint64) {
		var a, cm uint64
		fmt.Sscanf(c.ask(id, "applied", 5*time.Second), "APPLIED %d %d", &a, &cm)
		return a, cm
	}
	_, target := appliedOf(1)
	if target > 0 && !waitForSlow(45*time.Second, func() bool { a, _ := appliedOf(3); return a >= target }) {
		a, _ := appliedOf(3)
		out.Violate("C20", "C20/servers/rejoined-member-not-reached", fmt.Sprintf("a member that was removed and joined again under its id is listed by everybody, but 45 s later it has applied %d of the %d entries the leader had committed when it came back: the others cannot reach it", a, target))
		return
	}
	c.stop(1, hard)
	if err := c.start(1); err != nil {
		out.Violate("C20", "C20/servers/restart-fails", fmt.Sprintf("member 1 does not start again: %v", err))
		return
	}
	out.Nontrivial("restart-after-rejoin")
	time.Sleep(2 * time.Second) // the partitions' groups replay their own logs too
	check("after member 1 restarted (its partitions' logs still hold member 3's departure from their replica sets)", []uint64{1, 2, 3}, want(1, 2, 3))
}

// ---- C03: a kill at any instant, also in the middle of a write to the store's value log
//
// The store of a real server is what server.go opens (its options are the code's, not the harness's).
// A process killed inside write(2) leaves a prefix of the buffer it was appending at the end of the
// newest value-log file (the kernel stops copying pages when a fatal signal is pending). torn-write
// produces exactly that state after a SIGKILL: a prefix of a well-formed record appended to the newest
// value-log file; under-load kills the process at random instants while writes are being acknowledged
// and leaves the files as the kill left them. Either way the node must start again and serve every
// write it acknowledged.

func (c *srvCluster) insertAcked(via uint64, ds []byte, n int, from int) ([][]byte, error) {
	var ids [][]byte
	for i := 0; i < n; i++ {
		id := uuid.NewV4().Bytes()
		ctx, cancel := context.WithTimeout(context.Background(), 3*time.Second)
		_, err := pb.NewDataManagerClient(c.nodes[via].conn).Insert(ctx, &pb.InsertRequest{DatasetId: ds, Id: id, Value: []float32{float32(from + i), 1, 2, 3}})
		cancel()
		if err != nil {
			return ids, err
		}
		ids = append(ids, id)
	}
	return ids, nil
}

func (c *srvCluster) sizeOf(via uint64, ds []byte) (uint64, error) {
	ctx, cancel := context.WithTimeout(context.Background(), 3*time.Second)
	defer cancel()
	r, err := pb.NewDatasetManagerClient(c.nodes[via].conn).GetDatasetSize(ctx, &pb.GetDatasetRequest{DatasetId: ds})
	if err != nil {
		return 0, err
	}
	return r.GetLen(), nil
}

// holds: the node holds an item under id — a second insert under the same id is refused with
// "Item already exists" (exact, unlike a search)
func (c *srvCluster) holds(via uint64, ds []byte, id []byte, vec []float32) (bool, error) {
	ctx, cancel := context.WithTimeout(context.Background(), 3*time.Second)
	defer cancel()
	_, err := pb.NewDataManagerClient(c.nodes[via].conn).Insert(ctx, &pb.InsertRequest{DatasetId: ds, Id: id, Value: vec})
	if err == nil {
		return false, nil
	}
	if strings.Contains(err.Error(), "Item already exists") {
		return true, nil
	}
	return false, err
}

// newestValueLog: the value-log file of the server's store with the highest number
func newestValueLog(dir string) string {
	fs, _ := filepath.Glob(filepath.Join(dir, "anndb", "*.vlog"))
	sort.Strings(fs)
	if len(fs) == 0 {
		return ""
	}
	return fs[len(fs)-1]
}

// servedAfterRestart: the restarted node serves all n acknowledged items (the size says at least n, the
// item written last is there: a second insert under its id is refused)
func (c *srvCluster) servedAfterRestart(ds []byte, n int, lastId []byte, lastVec []float32, sig, how string) bool {
	var got uint64
	var err error
	ok := waitForSlow(40*time.Second, func() bool {
		got, err = c.sizeOf(1, ds)
		return err == nil && got >= uint64(n)
	})
	if !ok {
		c.out.Violate("C03", sig, fmt.Sprintf("%s: %d writes were acknowledged; 40 s after the restart the node reports %d items (error: %v)", how, n, got, err))
		return false
	}
	var has bool
	ok = waitForSlow(20*time.Second, func() bool {
		has, err = c.holds(1, ds, lastId, lastVec)
		return err == nil
	})
	if !ok {
		c.out.Local("the restarted node did not answer the probe for the last acknowledged item within 20 s (%v): not judged", err)
		return true
	}
	if !has {
		c.out.Violate("C03", sig, fmt.Sprintf("%s: the write acknowledged last (id %x) is not there after the restart (the node reports %d items, %d were acknowledged): an insert under the same id was accepted", how, lastId, got, n))
		return false
	}
	return true
}

func srvCrashTornWrite(cx *Ctx, r *Rng) {
	c := newSrvCluster(cx, "C03")
	out := c.out
	cut := 3 + r.Intn(14)
	out.Begin(fmt.Sprintf("servers crash-torn-write cut=%d", cut))
	defer out.End()
	defer c.close()
	if err := c.start(1); err != nil {
		out.Local("set-up failed: %v", err)
		return
	}
	ds, _, err := c.createPatiently(1, 4, 1, 1, 30*time.Second)
	if err != nil {
		out.Local("set-up: create failed: %v", err)
		return
	}
	n := 30 + r.Intn(30)
	ids, err := c.insertAcked(1, ds.GetId(), n, 0)
	if err != nil {
		out.Local("set-up: insert %d failed: %v", len(ids), err)
		return
	}
	out.Local("one node, one dataset, %d inserts acknowledged", n)
	c.stop(1, true)
	vl := newestValueLog(c.nodes[1].dir)
	b, err := ioutil.ReadFile(vl)
	const vlogHeader = 20
	if vl == "" || err != nil || len(b) < vlogHeader+cut+8 {
		out.Local("no value-log file with a record in it under %s (%v): scenario not reached", c.nodes[1].dir, err)
		return
	}
	f, err := os.OpenFile(vl, os.O_APPEND|os.O_WRONLY, 0644)
	if err != nil {
		out.Local("cannot append to %s: %v", vl, err)
		return
	}
	f.Write(b[vlogHeader : vlogHeader+cut]) // the first cut bytes of a well-formed record: a write the kill interrupted
	f.Close()
	out.Local("SIGKILL; the write in progress had appended the first %d bytes of its record to %s (%d bytes before)", cut, filepath.Base(vl), len(b))
	out.Nontrivial("torn-record-at-the-tail")
	if err := c.start(1); err != nil {
		out.Violate("C03", "C03/servers/restart-after-torn-write-fails", fmt.Sprintf("after a kill in the middle of a write to the value log (%d acknowledged writes before it, the first %d bytes of the next record on disk) the node does not start again: %v", n, cut, err))
		return
	}
	if c.servedAfterRestart(ds.GetId(), n, ids[n-1], []float32{float32(n - 1), 1, 2, 3}, "C03/servers/acknowledged-write-lost", "kill in the middle of a write to the value log") {
		out.Local("the node restarted and serves all %d acknowledged writes", n)
	}
}

func srvCrashUnderLoad(cx *Ctx, r *Rng, kills int) {
	c := newSrvCluster(cx, "C03")
	out := c.out
	out.Begin(fmt.Sprintf("servers crash-under-load kills=%d", kills))
	defer out.End()
	defer c.close()
	if err := c.start(1); err != nil {
		out.Local("set-up failed: %v", err)
		return
	}
	ds, _, err := c.createPatiently(1, 4, 1, 1, 30*time.Second)
	if err != nil {
		out.Local("set-up: create failed: %v", err)
		return
	}
	acked := 0
	var lastId []byte
	for k := 0; k < kills; k++ {
		// writers acknowledge as fast as the node answers; the kill falls somewhere among them
		var stopped int32
		var mu sync.Mutex
		var wg sync.WaitGroup
		base := acked
		type ack struct {
			n  int
			id []byte
		}
		var acks []ack
		for w := 0; w < 4; w++ {
			wg.Add(1)
			go func(w int) {
				defer wg.Done()
				for i := 0; ; i++ {
					id := uuid.NewV4().Bytes()
					num := base + w*100000 + i
					ctx, cancel := context.WithTimeout(context.Background(), 2*time.Second)
					_, err := pb.NewDataManagerClient(c.nodes[1].conn).Insert(ctx, &pb.InsertRequest{DatasetId: ds.GetId(), Id: id, Value: []float32{float32(num), float32(k), 2, 3}, Metadata: map[string]string{"pad": strings.Repeat("x", 200)}})
					cancel()
					if err != nil {
						if atomic.LoadInt32(&stopped) != 0 {
							return
						}
						time.Sleep(20 * time.Millisecond) // no leader yet, or the node is still replaying
						continue
					}
					mu.Lock()
					acks = append(acks, ack{num, id})
					mu.Unlock()
				}
			}(w)
		}
		// the kill comes a random while after the first acknowledgement
		waitForSlow(20*time.Second, func() bool { mu.Lock(); defer mu.Unlock(); return len(acks) > 0 })
		time.Sleep(time.Duration(20+r.Intn(500)) * time.Millisecond)
		atomic.StoreInt32(&stopped, 1)
		c.stop(1, true)
		wg.Wait()
		acked += len(acks)
		if len(acks) == 0 {
			out.Local("kill %d: nothing was acknowledged before it", k+1)
		} else {
			out.Local("kill %d: SIGKILL after %d further acknowledged inserts (%d in all)", k+1, len(acks), acked)
			out.Nontrivial("killed-while-acknowledging")
		}
		if err := c.start(1); err != nil {
			out.Violate("C03", "C03/servers/restart-after-kill-fails", fmt.Sprintf("after SIGKILL number %d, %d acknowledged writes in all, the node does not start again: %v", k+1, acked, err))
			return
		}
		if len(acks) > 0 {
			last := acks[len(acks)-1]
			lastId = last.id
			if !c.servedAfterRestart(ds.GetId(), acked, lastId, []float32{float32(last.n), float32(k), 2, 3}, "C03/servers/acknowledged-write-lost", fmt.Sprintf("SIGKILL number %d while inserts were being acknowledged", k+1)) {
				return
			}
		}
	}
	out.Local("%d kills, %d acknowledged writes, all served after every restart", kills, acked)
}
