package main

// Engine members (C20): clusters of 1-5 nodes built from the real zero RaftGroup, shared group,
// NodesManager, cluster.Conn and the real NodesManager gRPC service on loopback ports (the join
// handshake is the real client and server code; its request or response can be lost). Raft
// messages travel through the in-memory clients of raftsim.go, which deliver only when the
// sender's address book holds the address the target currently listens on. Random histories of
// joins, removals, catalogue proposals, forced compaction of the zero log and member restarts
// (a restarted joiner runs the join handshake again, as cmd/anndb does on every start).
// After every step the harness waits for quiescence and compares every live member's
// cluster.Conn.Nodes() with the acknowledged membership; the Lean driver replays the same
// history through Model/Members.lean and must list the same book for every member.

import (
	"context"
	"fmt"
	"os"
	"sort"
	"strconv"
	"strings"
	"time"

	uuid "github.com/satori/go.uuid"
)

func init() {
	register("members", runMembers)
	childHandlers["members"] = childMembers
}

func runMembers(c *Ctx) {
	c.Stats.Rule = "random membership histories on 1-5 nodes (child process per batch): join (handshake request / response optionally lost, retried), removal, catalogue proposals, forced compaction of the zero log, member restart (log replay or snapshot restore, re-join handshake for joiners); after each step every live member's address book is compared with the acknowledged membership; non-trivial = history with a restart after a compaction, or a lost handshake; distinct = distinct history"
	trials := c.ArgInt("trials", c.Pick(8, 80))
	batch := 4
	for b := 0; b*batch < trials; b++ {
		n := batch
		if trials-b*batch < n {
			n = trials - b*batch
		}
		streamChild(c, time.Duration(60+n*90)*time.Second, "C20", "members", fmt.Sprint(c.Seed*1000+uint64(b)), fmt.Sprint(n), c.Tier, c.Args["script"])
	}
}

func childMembers(args []string) {
	seed, _ := strconv.ParseUint(args[0], 10, 64)
	trials, _ := strconv.Atoi(args[1])
	thorough := len(args) > 2 && args[2] == "thorough"
	script := ""
	if len(args) > 3 {
		script = args[3]
	}
	rng := NewRng(seed)
	if script == "" {
		// corpus: the leader joined after the only snapshot it holds. Node 1 compacts while alone; 2 joins and
		// is made leader; 3 (then 4) joins: it knows 2 from the handshake and is then sent node 2's stored
		// snapshot, whose book lists node 1 alone. It must keep node 2's address, or it can never answer it.
		membersTrial(cout, NewRng(7), 0, thorough, "compact,join,campaign,join,join,propose")
	}
	for t := 0; t < trials; t++ {
		membersTrial(cout, rng.Fork(), t, thorough, script)
	}
	cout.Done()
	os.Exit(0)
}

func bookText(m map[uint64]string, names map[string]string) string {
	var ks []uint64
	for k := range m {
		ks = append(ks, k)
	}
	sort.Slice(ks, func(i, j int) bool { return ks[i] < ks[j] })
	var ss []string
	for _, k := range ks {
		a := m[k]
		if n, ok := names[a]; ok {
			a = n
		} else if a == "" {
			a = "<empty>"
		} else {
			a = "?" + a
		}
		ss = append(ss, fmt.Sprintf("%d=%s", k, a))
	}
	return strings.Join(ss, ",")
}

type memberInfo struct {
	addr      string
	bootstrap bool
	joinVia   []string // addresses the node was configured to join through
}

func membersTrial(out *childOut, r *Rng, t int, thorough bool, script string) {
	out.Begin("members")
	defer out.End()
	c := newRsCluster(uuid.Nil, true, r.Fork())
	c.viol = func(p, s, w string) {
		if p == "C05" { // the zero group is a raft group like any other
			out.Violate(p, s, w)
		} else {
			out.Violate(p, s, w)
		}
	}
	names := map[string]string{} // real loopback address -> stable name (a<id>.<generation>)
	info := map[uint64]*memberInfo{}
	expected := map[uint64]string{} // acknowledged membership
	maybe := map[uint64]bool{}      // joins / removals whose acknowledgement was lost
	compacted := false
	lostHandshake := false
	restartAfterCompaction := false
	next := uint64(1)
	seq := 0

	boot := func() bool {
		lis, addr, err := c.listen()
		if err != nil {
			out.Violate("C20", "C20/listen", err.Error())
			return false
		}
		names[addr] = "a1.0"
		n, err := c.start(1, []uint64{1}, addr)
		if err != nil {
			out.Violate("C20", "C20/start-fails", err.Error())
			return false
		}
		n.serve(lis)
		info[1] = &memberInfo{addr: addr, bootstrap: true}
		expected[1] = addr
		next = 2
		n.g.VerifCampaign()
		return waitFor(30*time.Second, func() bool { return c.leader() != nil })
	}
	if !boot() {
		out.Violate("C20", "C20/no-leader", "the bootstrap node did not become leader of the zero group within 30 s")
		c.teardown()
		return
	}
	out.Op("boot 1 a1.0")
	out.Res("ok")

	// quiesce: wait until every live member lists exactly the acknowledged membership
	check := func(after string) {
		var last map[uint64]string
		var lastNode uint64
		ok := waitFor(12*time.Second, func() bool {
			for _, n := range c.live() {
				if _, member := expected[n.id]; !member {
					continue
				}
				book := n.conn.Nodes()
				for id, a := range expected {
					if maybe[id] {
						continue
					}
					if book[id] != a {
						last, lastNode = book, n.id
						return false
					}
				}
				for id := range book {
					if _, in := expected[id]; !in && !maybe[id] {
						last, lastNode = book, n.id
						return false
					}
				}
			}
			return true
		})
		// transcript: the model lists the book of every live member
		for _, n := range c.live() {
			if _, member := expected[n.id]; !member || maybe[n.id] {
				continue
			}
			book := n.conn.Nodes()
			for id := range book {
				if maybe[id] {
					delete(book, id)
				}
			}
			out.Op("book %d", n.id)
			out.Res("%s", bookText(book, names))
		}
		if !ok {
			exp := map[uint64]string{}
			for id, a := range expected {
				if !maybe[id] {
					exp[id] = a
				}
			}
			sig := "C20/book-differs"
			for id, a := range exp {
				if got, has := last[id]; has && got == "" && a != "" {
					sig = "C20/empty-address"
				} else if !has && sig == "C20/book-differs" {
					sig = "C20/member-missing"
				} else if has && got != a && got != "" {
					sig = "C20/stale-address"
				}
			}
			if compacted && sig == "C20/member-missing" {
				sig = "C20/member-missing-after-compaction"
			}
			var st []string
			for _, n := range c.live() {
				s := n.g.VerifStatus()
				li, _ := n.w.inner.LastIndex()
				st = append(st, fmt.Sprintf("node %d: term %d lead %d commit %d applied %d last %d", n.id, s.Term, s.Lead, s.Commit, s.Applied, li))
			}
			out.Violate("C20", sig, fmt.Sprintf("12 s after %s member %d lists [%s]; the acknowledged membership is [%s] (raft: %s)", after, lastNode, bookText(last, names), bookText(exp, names), strings.Join(st, "; ")))
		}
	}

	join := func(id uint64, lose string, fresh bool) {
		var n *rsNode
		mi := info[id]
		if fresh {
			lis, addr, err := c.listen()
			if err != nil {
				return
			}
			gen := 0
			for _, v := range names {
				if strings.HasPrefix(v, fmt.Sprintf("a%d.", id)) {
					gen++
				}
			}
			names[addr] = fmt.Sprintf("a%d.%d", id, gen)
			mi = &memberInfo{addr: addr}
			info[id] = mi
			n, err = c.start(id, nil, addr)
			if err != nil {
				out.Violate("C20", "C20/start-fails", err.Error())
				return
			}
			n.serve(lis)
		} else {
			n = c.node(id)
		}
		// the addresses to join through: one or two current members
		var vias []string
		var viaIds []uint64
		live := c.live()
		for _, i := range r.Perm(len(live)) {
			m := live[i]
			if _, member := expected[m.id]; member && m.id != id && !maybe[m.id] && len(vias) < 2 {
				vias = append(vias, m.addr)
				viaIds = append(viaIds, m.id)
			}
		}
		if len(vias) == 0 {
			return
		}
		mi.joinVia = vias
		c.mu.Lock()
		c.joinDrop = lose
		c.mu.Unlock()
		ctx, cancel := context.WithTimeout(context.Background(), 5*time.Second)
		err := n.nm.Join(ctx, vias)
		cancel()
		c.mu.Lock()
		c.joinDrop = ""
		c.mu.Unlock()
		out.Op("join %d %s %d %s", id, names[mi.addr], len(viaIds), orDash(lose))
		out.Local("  via %v", viaIds)
		if err != nil {
			out.Res("failed")
			lostHandshake = true
			// cmd/anndb exits when the join fails; whether the change was committed is unknown
			maybe[id] = true
			n.ctl.kill()
			n.stopIncarnation()
			if n.lis != nil {
				n.lis.Close()
			}
			return
		}
		out.Res("ok")
		if lose != "" {
			lostHandshake = true
		}
		delete(maybe, id)
		expected[id] = mi.addr
	}

	downNode := func(id uint64) bool {
		old := c.node(id)
		mi := info[id]
		if old == nil || mi == nil {
			return false
		}
		old.ctl.kill()
		old.stopIncarnation()
		if old.lis != nil {
			old.lis.Close()
		}
		time.Sleep(20 * time.Millisecond)
		return true
	}
	upNode := func(id uint64) {
		mi := info[id]
		var peers []uint64
		if mi.bootstrap {
			peers = []uint64{id}
		}
		lis, err := netListenRetry(mi.addr)
		if err != nil {
			out.Local("cannot re-listen on %s: %v", mi.addr, err)
			return
		}
		n, err := c.start(id, peers, mi.addr)
		if err != nil {
			out.Violate("C20", "C20/restart-fails", fmt.Sprintf("restart of member %d failed: %v", id, err))
			return
		}
		n.serve(lis)
		if os.Getenv("VERIF_DEBUG") != "" {
			time.Sleep(300 * time.Millisecond)
			hs, _ := n.w.peekHardState()
			fi, _ := n.w.inner.FirstIndex()
			li, _ := n.w.inner.LastIndex()
			sn, _ := n.w.inner.Snapshot()
			out.Local("debug restart %d: hs=%+v first=%d last=%d snap@%d conf=%v status=%+v book=%v", id, hs, fi, li, sn.Metadata.Index, sn.Metadata.ConfState.Nodes, n.g.VerifStatus().HardState, n.conn.Nodes())
		}
		out.Op("restart %d", id)
		out.Res("ok")
		if compacted {
			restartAfterCompaction = true
		}
		if !mi.bootstrap && len(mi.joinVia) > 0 {
			// cmd/anndb runs the join handshake on every start of a node configured with -join
			ctx, cancel := context.WithTimeout(context.Background(), 5*time.Second)
			err := n.nm.Join(ctx, mi.joinVia)
			cancel()
			out.Local("re-join of %d after restart: %v", id, err)
		}
	}
	restartNode := func(id uint64) {
		if downNode(id) {
			upNode(id)
		}
	}
	compactOn := func(n *rsNode) bool {
		done := make(chan error, 1)
		go func() { done <- n.g.VerifSnapshotNow() }()
		select {
		case err := <-done:
			if err == nil {
				out.Op("compact %d", n.id)
				out.Res("ok")
				compacted = true
				return true
			}
			out.Local("compaction on %d failed: %v", n.id, err)
			out.Count("compaction-failed")
		case <-time.After(2 * time.Second):
			out.Local("compaction on %d did not finish", n.id)
		}
		return false
	}
	steps := 6 + r.Intn(8)
	if thorough {
		steps += r.Intn(10)
	}
	var plan []string
	if script != "" {
		plan = strings.Split(script, ",")
		steps = len(plan)
	}
	for s := 0; s < steps; s++ {
		var members []uint64
		for id := range expected {
			if !maybe[id] {
				members = append(members, id)
			}
		}
		sort.Slice(members, func(i, j int) bool { return members[i] < members[j] })
		action := ""
		if plan != nil {
			action = plan[s]
		} else {
			switch k := r.Intn(100); {
			case k < 30 && len(expected) < 5:
				action = "join"
				if r.Intn(4) == 0 {
					action = "join-lose-response"
				} else if r.Intn(6) == 0 {
					action = "join-lose-request"
				}
			case k < 40 && len(members) > 2:
				action = "remove"
			case k < 50 && len(members) > 1:
				action = "lag"
			case k < 56:
				action = "propose"
			case k < 60 && len(members) > 1:
				action = "campaign"
			case k < 75:
				action = "compact"
			default:
				action = "restart"
			}
		}
		switch {
		case strings.HasPrefix(action, "join"):
			lose := ""
			if strings.HasSuffix(action, "response") {
				lose = "response"
			} else if strings.HasSuffix(action, "request") {
				lose = "request"
			}
			id := next
			next++
			join(id, lose, true)
			// cmd/anndb exits when its join fails; its supervisor starts it again (same id, same
			// database, a new port) until the join is acknowledged. Without that a change that was
			// committed although its acknowledgement was lost would leave a dead member behind.
			for try := 0; maybe[id] && try < 3; try++ {
				delete(info, id)
				join(id, "", true)
			}
			check(action)
		case action == "campaign":
			// leadership moves to the member that joined last (it holds no snapshot newer than its join)
			var newest *rsNode
			for _, n := range c.live() {
				if _, member := expected[n.id]; member && !maybe[n.id] && (newest == nil || n.id > newest.id) {
					newest = n
				}
			}
			if l := c.leader(); newest != nil && l != nil && l.id != newest.id {
				// only a node that has applied its own membership entry may be told to campaign (raft's own
				// timer checks that; the hook does not): wait until it has caught up with the leader
				target := l.g.VerifStatus().Commit
				if waitFor(5*time.Second, func() bool { return newest.g.VerifStatus().Applied >= target }) {
					newest.g.VerifCampaign()
					ok := waitFor(5*time.Second, func() bool { l := c.leader(); return l != nil && l.id == newest.id })
					out.Local("campaign %d -> leader: %v", newest.id, ok)
				} else {
					out.Local("campaign %d skipped: it has not caught up with the leader", newest.id)
				}
			}
			check(action)
		case action == "remove":
			l := c.leader()
			var cands []uint64
			for _, id := range members {
				if l == nil || id != l.id {
					cands = append(cands, id)
				}
			}
			if len(cands) == 0 || l == nil {
				continue
			}
			id := cands[r.Intn(len(cands))]
			rctx, rcancel := context.WithTimeout(context.Background(), 5*time.Second)
			err := l.nm.RemoveNode(rctx, id)
			rcancel()
			out.Op("remove %d", id)
			if err != nil {
				out.Res("failed")
				maybe[id] = true
			} else {
				out.Res("ok")
				delete(expected, id)
			}
			// the removed node is shut down once the others have dropped it
			waitFor(5*time.Second, func() bool {
				for _, n := range c.live() {
					if n.id != id {
						if _, has := n.conn.Nodes()[id]; has {
							return false
						}
					}
				}
				return true
			})
			if n := c.node(id); n != nil {
				n.ctl.kill()
				n.stopIncarnation()
				if n.lis != nil {
					n.lis.Close()
				}
			}
			check("remove")
		case action == "propose":
			if l := c.leader(); l != nil {
				for i := 0; i < 1+r.Intn(3); i++ {
					seq++
					ctx, cancel := context.WithTimeout(context.Background(), 200*time.Millisecond)
					l.prox.Propose(ctx, []byte(fmt.Sprintf("t%d-c%d", t, seq)))
					cancel()
				}
				out.Local("propose catalogue entries via %d", l.id)
			}
		case action == "compact" || strings.HasPrefix(action, "compact:"):
			live := c.live()
			if len(live) == 0 {
				continue
			}
			n := live[r.Intn(len(live))]
			if strings.HasPrefix(action, "compact:") {
				id, _ := strconv.Atoi(action[8:])
				if m := c.node(uint64(id)); m != nil {
					n = m
				}
			}
			// give the loop something to compact
			if l := c.leader(); l != nil {
				seq++
				ctx, cancel := context.WithTimeout(context.Background(), 200*time.Millisecond)
				l.prox.Propose(ctx, []byte(fmt.Sprintf("t%d-c%d", t, seq)))
				cancel()
				time.Sleep(30 * time.Millisecond)
			}
			compactOn(n)
		case action == "lag" || strings.HasPrefix(action, "lag:"):
			// a member is down while the others move on and compact their logs: it has to catch up
			// through the leader's snapshot
			l := c.leader()
			if l == nil || len(members) < 2 {
				continue
			}
			var cands []uint64
			for _, id := range members {
				if id != l.id {
					cands = append(cands, id)
				}
			}
			if len(cands) == 0 {
				continue
			}
			id := cands[r.Intn(len(cands))]
			if strings.HasPrefix(action, "lag:") {
				v, _ := strconv.Atoi(action[4:])
				id = uint64(v)
			}
			if 2*(len(members)-1) <= len(members) {
				continue // the others would lose their quorum
			}
			if !downNode(id) {
				continue
			}
			out.Local("member %d goes down", id)
			for i := 0; i < 3; i++ {
				seq++
				ctx, cancel := context.WithTimeout(context.Background(), 300*time.Millisecond)
				l.prox.Propose(ctx, []byte(fmt.Sprintf("t%d-c%d", t, seq)))
				cancel()
			}
			time.Sleep(150 * time.Millisecond)
			for _, n := range c.live() {
				compactOn(n)
			}
			upNode(id)
			// the member catches up (through the leader's snapshot: the entries it misses are compacted)
			caught := waitFor(20*time.Second, func() bool {
				n := c.node(id)
				ld := c.leader()
				if n == nil || ld == nil {
					return false
				}
				a, b := n.appliedCopy(), ld.appliedCopy()
				return len(a) == len(b) && len(b) > 0
			})
			if !caught {
				var st []string
				for _, n := range c.live() {
					s := n.g.VerifStatus()
					st = append(st, fmt.Sprintf("node %d: term %d lead %d commit %d applied %d entries, book [%s]", n.id, s.Term, s.Lead, s.Commit, len(n.appliedCopy()), bookText(n.conn.Nodes(), names)))
				}
				out.Violate("C20", "C20/lagging-member-never-catches-up", fmt.Sprintf("20 s after member %d came back (the others had compacted the entries it misses) it has not caught up: %s", id, strings.Join(st, "; ")))
			}
			check(fmt.Sprintf("member %d coming back after the others compacted their logs", id))
		case action == "restart" || strings.HasPrefix(action, "restart:"):
			if len(members) == 0 {
				continue
			}
			id := members[r.Intn(len(members))]
			if strings.HasPrefix(action, "restart:") {
				v, _ := strconv.Atoi(action[8:])
				id = uint64(v)
			}
			restartNode(id)
			check(fmt.Sprintf("restart of %d", id))
		}
		time.Sleep(time.Duration(5+r.Intn(20)) * time.Millisecond)
	}
	c.mu.Lock()
	for k, v := range c.counts {
		if v > 0 {
			out.Count(k)
		}
	}
	c.mu.Unlock()
	if restartAfterCompaction {
		out.Nontrivial("restart-after-compaction")
	}
	if lostHandshake {
		out.Nontrivial("lost-handshake")
	}
	c.teardown()
	for _, n := range c.all {
		if n.lis != nil {
			n.lis.Close()
		}
	}
}

func orDash(s string) string {
	if s == "" {
		return "-"
	}
	return s
}
