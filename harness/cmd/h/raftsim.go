package main

// Raft-level simulation (C03, C05, C20): real storage/raft.RaftGroup objects over the real Badger
// log store, one Badger database per simulated node that outlives the node's incarnations.
//
//   - crashWAL wraps the log store: it counts the durable writes of a node (Save, CreateSnapshot,
//     DeleteGroup across all groups of the node) and can kill the node immediately before or after
//     the k-th one. A killed incarnation never writes again (its loop stays blocked inside the
//     write), sends nothing and receives nothing: everything it held in memory is lost. A restart
//     builds a fresh incarnation over the same database.
//   - rsClient is the in-memory pb.RaftTransportClient every incarnation gets for every peer: it
//     sees every message that leaves a replica (and compares it with what that replica's log store
//     holds at that moment), applies the link faults (drop, duplicate, delay/reorder, partitions)
//     and - when the simulation runs the membership service - refuses to deliver unless the
//     sender's address book holds the address the target currently listens on, as a dial would.

import (
	"context"
	"errors"
	"fmt"
	"net"
	"sort"
	"strings"
	"sync"
	"sync/atomic"
	"time"

	"github.com/coreos/etcd/raft/raftpb"
	badger "github.com/dgraph-io/badger/v2"
	"github.com/golang/protobuf/proto"
	"github.com/marekgalovic/anndb/cluster"
	pb "github.com/marekgalovic/anndb/protobuf"
	"github.com/marekgalovic/anndb/services"
	"github.com/marekgalovic/anndb/storage/raft"
	"github.com/marekgalovic/anndb/storage/wal"
	uuid "github.com/satori/go.uuid"
	"google.golang.org/grpc"
)

// ---------------------------------------------------------------- crash control

type crashCtl struct {
	mu      sync.Mutex
	writes  int
	crashAt int
	before  bool
	dead    int32
	inflight int // durable writes that are inside the store right now
	deathC  chan struct{}
	onDeath func()
	trace   []string
}

func newCrashCtl() *crashCtl { return &crashCtl{deathC: make(chan struct{})} }

func (c *crashCtl) isDead() bool { return atomic.LoadInt32(&c.dead) != 0 }

func (c *crashCtl) dieLocked() {
	if atomic.CompareAndSwapInt32(&c.dead, 0, 1) {
		close(c.deathC)
		if c.onDeath != nil {
			c.onDeath()
		}
	}
}

// kill: the node dies now, outside any durable write.
func (c *crashCtl) kill() {
	c.mu.Lock()
	c.dieLocked()
	c.mu.Unlock()
}

// arm: die at the n-th durable write from now (n >= 1), before or after it reaches the store.
func (c *crashCtl) arm(n int, before bool) {
	c.mu.Lock()
	c.crashAt, c.before = c.writes+n, before
	c.mu.Unlock()
}

// waitQuiet: after death, wait until no durable write is inside the store any more
func (c *crashCtl) waitQuiet() {
	for i := 0; i < 2000; i++ {
		c.mu.Lock()
		n := c.inflight
		c.mu.Unlock()
		if n == 0 {
			return
		}
		time.Sleep(time.Millisecond)
	}
}

func (c *crashCtl) armAbs(k int, before bool) {
	c.mu.Lock()
	c.crashAt, c.before = k, before
	c.mu.Unlock()
}

func (c *crashCtl) count() int {
	c.mu.Lock()
	defer c.mu.Unlock()
	return c.writes
}

// write runs one durable write under the crash plan.
func (c *crashCtl) write(kind string, do func() error) error {
	c.mu.Lock()
	if c.isDead() {
		c.mu.Unlock()
		select {}
	}
	c.writes++
	k := c.writes
	c.trace = append(c.trace, kind)
	if c.crashAt == k && c.before {
		c.dieLocked()
		c.mu.Unlock()
		select {}
	}
	c.inflight++
	c.mu.Unlock()
	err := do()
	c.mu.Lock()
	c.inflight--
	if c.isDead() { // killed from outside while the write was in flight: it did reach the store
		c.mu.Unlock()
		select {}
	}
	if c.crashAt == k && !c.before {
		c.dieLocked()
		c.mu.Unlock()
		select {}
	}
	c.mu.Unlock()
	return err
}

type crashWAL struct {
	inner wal.WAL
	ctl   *crashCtl
	gid   uuid.UUID
	rec   *walRec // optional: what this store was asked to keep (entries by index, snapshots it created)
}

// walRec is the harness's own record of one log store across incarnations: every entry handed to
// Save (the last one written at an index wins, as in the store) and every snapshot the node
// created or installed. It lets an engine compute "the state after exactly the entries up to the
// snapshot's index" after the store itself has compacted them away.
type walRec struct {
	mu        sync.Mutex
	ents      map[uint64]raftpb.Entry
	created   []raftpb.Snapshot
	installed []uint64
}

var walRecs sync.Map // "<db pointer>/<group id>" -> *walRec

func walRecFor(db uintptr, gid uuid.UUID) *walRec {
	v, _ := walRecs.LoadOrStore(fmt.Sprintf("%x/%s", db, gid), &walRec{ents: map[uint64]raftpb.Entry{}})
	return v.(*walRec)
}

// read: a dead incarnation reads nothing more either. Its goroutines outlive the simulated crash (they
// cannot be killed in-process) and its store object keeps its own caches of first / last index while
// the next incarnation compacts and appends in the same database: letting its reads through made
// etcd/raft, still ticking in the dead incarnation, find "its" last index compacted away and end the
// process — a state no crashed process can be in (false alarm of the crash engine, DESIGN §8.4).
func (w *crashWAL) read() {
	if w.ctl.isDead() {
		select {}
	}
}

func (w *crashWAL) InitialState() (raftpb.HardState, raftpb.ConfState, error) {
	w.read()
	return w.inner.InitialState()
}
func (w *crashWAL) Entries(lo, hi, maxSize uint64) ([]raftpb.Entry, error) {
	w.read()
	return w.inner.Entries(lo, hi, maxSize)
}
func (w *crashWAL) Term(i uint64) (uint64, error)      { w.read(); return w.inner.Term(i) }
func (w *crashWAL) LastIndex() (uint64, error)         { w.read(); return w.inner.LastIndex() }
func (w *crashWAL) FirstIndex() (uint64, error)        { w.read(); return w.inner.FirstIndex() }
func (w *crashWAL) Snapshot() (raftpb.Snapshot, error) { w.read(); return w.inner.Snapshot() }
func (w *crashWAL) HardState() (raftpb.HardState, error) {
	w.read()
	return w.inner.(interface {
		HardState() (raftpb.HardState, error)
	}).HardState()
}
func (w *crashWAL) Save(hs raftpb.HardState, es []raftpb.Entry, sn raftpb.Snapshot) error {
	kind := "save"
	if len(es) > 0 {
		kind += fmt.Sprintf(":e%d", len(es))
	}
	if hs.Term != 0 || hs.Vote != 0 || hs.Commit != 0 {
		kind += ":hs"
	}
	if sn.Metadata.Index != 0 {
		kind += ":snap"
	}
	return w.ctl.write(kind, func() error {
		err := w.inner.Save(hs, es, sn)
		if err == nil && w.rec != nil {
			w.rec.mu.Lock()
			for _, e := range es {
				w.rec.ents[e.Index] = e
			}
			if sn.Metadata.Index != 0 {
				w.rec.installed = append(w.rec.installed, sn.Metadata.Index)
			}
			w.rec.mu.Unlock()
		}
		return err
	})
}
func (w *crashWAL) CreateSnapshot(i uint64, cs *raftpb.ConfState, data []byte) (raftpb.Snapshot, error) {
	var sn raftpb.Snapshot
	err := w.ctl.write("compact", func() error {
		var e error
		sn, e = w.inner.CreateSnapshot(i, cs, data)
		if e == nil && w.rec != nil {
			w.rec.mu.Lock()
			w.rec.created = append(w.rec.created, sn)
			w.rec.mu.Unlock()
		}
		return e
	})
	return sn, err
}
func (w *crashWAL) DeleteGroup() error {
	return w.ctl.write("delete-group", func() error { return w.inner.DeleteGroup() })
}

// ---------------------------------------------------------------- nodes

type rsNode struct {
	c    *rsCluster
	id   uint64
	inc  int
	addr string
	db   *badger.DB
	ctl  *crashCtl
	conn *cluster.Conn
	tr   *raft.RaftTransport
	w    *crashWAL
	g    *raft.RaftGroup
	nm   *raft.NodesManager
	prox raft.Group // the "datasets" consumer of the shared zero group (membership mode)
	srv  *grpc.Server
	lis  net.Listener

	mu       sync.Mutex
	applied  []string
	restored int // how many snapshots this incarnation installed
}

func (n *rsNode) appliedCopy() []string {
	n.mu.Lock()
	defer n.mu.Unlock()
	return append([]string{}, n.applied...)
}

type linkFault struct{ drop, dup, delay float64 }

type rsCluster struct {
	gid     uuid.UUID
	members bool // membership mode: zero group + NodesManager + join service; deliveries need the right address
	mu      sync.Mutex
	dbs     map[uint64]*badger.DB
	cur     map[uint64]*rsNode
	all     []*rsNode
	rng     *Rng
	fault   linkFault
	blocked map[[2]uint64]bool
	canon   []string // position -> payload, as first applied by anyone
	seenPl  map[string]int
	viol    func(prop, sig, what string)
	event   func(format string, a ...interface{})
	counts  map[string]int
	msgObs  func(from *rsNode, m *raftpb.Message) // durability oracle
	joinDrop string                               // "", "request", "response": fault for the next AddNode RPC
	holeSnap map[uint64]int                       // target -> number of MsgSnap to swallow: the call hangs until the sender's deadline (a message lost in the network, not refused)
}

func newRsCluster(gid uuid.UUID, members bool, rng *Rng) *rsCluster {
	return &rsCluster{gid: gid, members: members, dbs: map[uint64]*badger.DB{}, cur: map[uint64]*rsNode{}, rng: rng,
		blocked: map[[2]uint64]bool{}, seenPl: map[string]int{}, counts: map[string]int{},
		viol: func(string, string, string) {}, event: func(string, ...interface{}) {}}
}

func (c *rsCluster) node(id uint64) *rsNode {
	c.mu.Lock()
	defer c.mu.Unlock()
	return c.cur[id]
}

func (c *rsCluster) live() []*rsNode {
	c.mu.Lock()
	defer c.mu.Unlock()
	var r []*rsNode
	for _, n := range c.cur {
		if n != nil && !n.ctl.isDead() {
			r = append(r, n)
		}
	}
	sort.Slice(r, func(i, j int) bool { return r[i].id < r[j].id })
	return r
}

const rsMaxNodes = 40

// start creates an incarnation of node id over its database. peers is what the code would pass
// as nodeIds (server.go getZeroNodeIds / partition.loadRaft).
func (c *rsCluster) start(id uint64, peers []uint64, addr string) (*rsNode, error) {
	c.mu.Lock()
	db := c.dbs[id]
	if db == nil {
		var err error
		db, err = badger.Open(badger.DefaultOptions("").WithInMemory(true).WithLogger(nil).WithMaxTableSize(1 << 20).WithNumMemtables(2))
		if err != nil {
			c.mu.Unlock()
			return nil, err
		}
		c.dbs[id] = db
	}
	inc := 0
	for _, o := range c.all {
		if o.id == id {
			inc++
		}
	}
	c.mu.Unlock()
	n := &rsNode{c: c, id: id, inc: inc, addr: addr, db: db, ctl: newCrashCtl()}
	var err error
	if n.conn, err = cluster.NewConn(id, addr, ""); err != nil {
		return nil, err
	}
	n.tr = raft.NewTransport(id, addr, n.conn)
	n.w = &crashWAL{inner: wal.NewBadgerWAL(db, c.gid), ctl: n.ctl, gid: c.gid}
	if n.g, err = raft.NewRaftGroup(c.gid, peers, n.w, n.tr); err != nil {
		return nil, err
	}
	process := func(data []byte) error { n.apply(string(data)); return nil }
	snapshot := func() ([]byte, error) {
		n.mu.Lock()
		defer n.mu.Unlock()
		return []byte(strings.Join(n.applied, "\n")), nil
	}
	restore := func(data []byte) error { n.restore(string(data)); return nil }
	if c.members {
		sg, err := raft.NewSharedGroup(n.g)
		if err != nil {
			return nil, err
		}
		p := sg.Get("datasets")
		p.RegisterProcessFn(process)
		p.RegisterSnapshotFn(snapshot)
		p.RegisterProcessSnapshotFn(restore)
		n.prox = p
		if n.nm, err = raft.NewNodesManager(n.conn, n.g, sg.Get("nodes")); err != nil { // as server.go wires it
			return nil, err
		}
	} else {
		n.g.RegisterProcessFn(process)
		n.g.RegisterSnapshotFn(snapshot)
		n.g.RegisterProcessSnapshotFn(restore)
	}
	for to := uint64(1); to <= rsMaxNodes; to++ {
		if to != id {
			n.tr.VerifSetClient(to, &rsClient{c: c, from: n, to: to})
		}
	}
	c.mu.Lock()
	c.cur[id] = n
	c.all = append(c.all, n)
	c.mu.Unlock()
	if err := n.g.Start(); err != nil {
		return nil, err
	}
	return n, nil
}

// serve starts the node's join service on a loopback port and makes that its announced address.
// (Called before start: the address is what the node announces.)
func (c *rsCluster) listen() (net.Listener, string, error) {
	lis, err := net.Listen("tcp", "127.0.0.1:0")
	if err != nil {
		return nil, "", err
	}
	return lis, lis.Addr().String(), nil
}

func (n *rsNode) serve(lis net.Listener) {
	n.lis = lis
	n.srv = grpc.NewServer(grpc.StreamInterceptor(func(srv interface{}, ss grpc.ServerStream, info *grpc.StreamServerInfo, handler grpc.StreamHandler) error {
		if n.ctl.isDead() {
			return errors.New("sim: node is down")
		}
		n.c.mu.Lock()
		mode := n.c.joinDrop
		n.c.joinDrop = ""
		n.c.mu.Unlock()
		switch mode {
		case "request":
			return errors.New("sim: join request lost")
		case "response":
			handler(srv, &mutedStream{ss})
			return errors.New("sim: join response lost")
		}
		return handler(srv, ss)
	}))
	pb.RegisterNodesManagerServer(n.srv, services.NewNodesManagerServer(n.nm))
	go n.srv.Serve(lis)
}

type mutedStream struct{ grpc.ServerStream }

func (m *mutedStream) SendMsg(interface{}) error { return nil }

// stopIncarnation releases what a dead (or retired) incarnation still holds.
func (n *rsNode) stopIncarnation() {
	if n.srv != nil {
		go n.srv.Stop()
	}
	go func() {
		defer func() { recover() }()
		n.g.Stop()
	}()
}

func (n *rsNode) apply(pl string) {
	n.mu.Lock()
	pos := len(n.applied)
	n.applied = append(n.applied, pl)
	n.mu.Unlock()
	n.c.checkApply(n, pos, pl)
}

func (n *rsNode) restore(data string) {
	var l []string
	if data != "" {
		l = strings.Split(data, "\n")
	}
	n.mu.Lock()
	had := len(n.applied)
	n.applied = l
	n.restored++
	n.mu.Unlock()
	c := n.c
	c.mu.Lock()
	defer c.mu.Unlock()
	c.counts["snapshot-installed"]++
	if had > len(l) {
		c.viol("C05", "C05/snapshot-moves-back", fmt.Sprintf("node %d installed a snapshot of %d applied entries over a state of %d", n.id, len(l), had))
	}
	for i, pl := range l {
		if i < len(c.canon) && c.canon[i] != pl {
			c.viol("C05", "C05/divergent-apply", fmt.Sprintf("node %d restored a snapshot whose position %d holds %q, another replica applied %q there", n.id, i, pl, c.canon[i]))
		}
	}
	if len(l) > len(c.canon) {
		c.viol("C05", "C05/snapshot-of-unapplied", fmt.Sprintf("node %d restored a snapshot of %d entries, nobody ever applied more than %d", n.id, len(l), len(c.canon)))
	}
}

func (c *rsCluster) checkApply(n *rsNode, pos int, pl string) {
	c.mu.Lock()
	defer c.mu.Unlock()
	c.counts["apply"]++
	switch {
	case pos < len(c.canon):
		if c.canon[pos] != pl {
			c.viol("C05", "C05/divergent-apply", fmt.Sprintf("node %d (incarnation %d) applied %q at position %d, another replica applied %q there", n.id, n.inc, pl, pos, c.canon[pos]))
		}
	case pos == len(c.canon):
		if at, dup := c.seenPl[pl]; dup {
			c.viol("C05", "C05/applied-twice", fmt.Sprintf("node %d applied %q at position %d, it was already applied at position %d", n.id, pl, pos, at))
		}
		c.seenPl[pl] = pos
		c.canon = append(c.canon, pl)
	default:
		c.viol("C05", "C05/apply-gap", fmt.Sprintf("node %d applied position %d while nobody applied position %d", n.id, pos, len(c.canon)))
	}
}

// ---------------------------------------------------------------- transport

type rsClient struct {
	c    *rsCluster
	from *rsNode
	to   uint64
}

var errSimDropped = errors.New("sim: message lost")

func (r *rsClient) Receive(ctx context.Context, in *pb.RaftMessage, opts ...grpc.CallOption) (*pb.EmptyMessage, error) {
	c := r.c
	if r.from.ctl.isDead() {
		return nil, errSimDropped
	}
	var m raftpb.Message
	if err := proto.Unmarshal(in.GetMessage(), &m); err != nil {
		return nil, err
	}
	if c.msgObs != nil {
		c.msgObs(r.from, &m)
	}
	c.mu.Lock()
	c.counts["msg:"+m.Type.String()]++
	target := c.cur[r.to]
	blocked := c.blocked[[2]uint64{r.from.id, r.to}]
	f := c.fault
	roll1, roll2, roll3 := c.rng.Float(), c.rng.Float(), c.rng.Float()
	delayMs := 1 + c.rng.Intn(60)
	c.mu.Unlock()
	if c.members {
		// a dial: the sender must know the address the target listens on
		addr, ok := r.from.conn.Nodes()[r.to]
		if !ok || target == nil || addr != target.addr {
			c.mu.Lock()
			c.counts["undeliverable:address"]++
			c.mu.Unlock()
			return nil, cluster.NodeAddressNotFoundError
		}
	}
	if target == nil || target.ctl.isDead() || blocked {
		return nil, errSimDropped
	}
	if m.Type == raftpb.MsgSnap {
		c.mu.Lock()
		hole := c.holeSnap[r.to] > 0
		if hole {
			c.holeSnap[r.to]--
			c.counts["fault:snapshot-black-holed"]++
		}
		c.mu.Unlock()
		if hole { // nothing comes back: the sender's call ends with its own deadline
			<-ctx.Done()
			return nil, ctx.Err()
		}
	}
	// As over gRPC: the handler runs on the receiving side for as long as it takes (a forwarded
	// proposal waits inside raft.Step until the receiver knows a leader); the sender gives up
	// when its own 500 ms deadline passes.
	deliver := func(t *rsNode) error {
		if t.ctl.isDead() {
			return errSimDropped
		}
		done := make(chan error, 1)
		go func() {
			_, err := t.tr.Receive(context.Background(), in)
			done <- err
		}()
		select {
		case err := <-done:
			return err
		case <-ctx.Done():
			return ctx.Err()
		}
	}
	if roll1 < f.drop {
		c.mu.Lock()
		c.counts["fault:drop"]++
		c.mu.Unlock()
		return nil, errSimDropped
	}
	if roll2 < f.delay { // the call times out for the sender; the message arrives later (possibly after newer ones)
		c.mu.Lock()
		c.counts["fault:delay"]++
		c.mu.Unlock()
		go func() {
			time.Sleep(time.Duration(delayMs) * time.Millisecond)
			if t := c.node(r.to); t != nil {
				deliver(t)
			}
		}()
		return nil, errSimDropped
	}
	if roll3 < f.dup && m.Type != raftpb.MsgProp { // a duplicated forwarded proposal is a client retry: raft appends it twice by design
		c.mu.Lock()
		c.counts["fault:dup"]++
		c.mu.Unlock()
		go func() {
			time.Sleep(time.Duration(delayMs) * time.Millisecond)
			if t := c.node(r.to); t != nil {
				deliver(t)
			}
		}()
	}
	if err := deliver(target); err != nil {
		return nil, err
	}
	return &pb.EmptyMessage{}, nil
}

// ---------------------------------------------------------------- helpers

func (c *rsCluster) setFault(f linkFault) {
	c.mu.Lock()
	c.fault = f
	c.mu.Unlock()
}

func (c *rsCluster) partition(side map[uint64]bool) {
	c.mu.Lock()
	c.blocked = map[[2]uint64]bool{}
	for a := uint64(1); a <= rsMaxNodes; a++ {
		for b := uint64(1); b <= rsMaxNodes; b++ {
			if side[a] != side[b] {
				c.blocked[[2]uint64{a, b}] = true
			}
		}
	}
	c.mu.Unlock()
}

func (c *rsCluster) heal() {
	c.mu.Lock()
	c.blocked = map[[2]uint64]bool{}
	c.fault = linkFault{}
	c.mu.Unlock()
}

// leader returns a live node that believes it leads and whose term is the highest among such.
func (c *rsCluster) leader() *rsNode {
	var best *rsNode
	var bt uint64
	for _, n := range c.live() {
		st := n.g.VerifStatus()
		if st.Lead == n.id && st.Term >= bt {
			best, bt = n, st.Term
		}
	}
	return best
}

// teardown stops every incarnation (the in-memory databases are left to the garbage collector).
func (c *rsCluster) teardown() {
	atomic.AddInt32(&shuttingDown, 1)
	c.mu.Lock()
	all := append([]*rsNode{}, c.all...)
	c.mu.Unlock()
	for _, n := range all {
		n.ctl.kill()
	}
	for _, n := range all {
		n.stopIncarnation()
	}
	time.Sleep(20 * time.Millisecond)
	go func() { time.Sleep(300 * time.Millisecond); atomic.AddInt32(&shuttingDown, -1) }()
}

func isPrefix(a, b []string) bool {
	if len(a) > len(b) {
		return false
	}
	for i := range a {
		if a[i] != b[i] {
			return false
		}
	}
	return true
}

func netListenRetry(addr string) (net.Listener, error) {
	var lis net.Listener
	var err error
	for i := 0; i < 50; i++ {
		if lis, err = net.Listen("tcp", addr); err == nil {
			return lis, nil
		}
		time.Sleep(20 * time.Millisecond)
	}
	return nil, err
}

// peekHardState: the harness's own look at the store (also of a dead incarnation)
func (w *crashWAL) peekHardState() (raftpb.HardState, error) {
	return w.inner.(interface {
		HardState() (raftpb.HardState, error)
	}).HardState()
}
