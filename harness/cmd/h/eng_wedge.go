package main

// Engine wedge (C18): one simulated node (real cluster.Conn, Allocator, DatasetManager, partitions
// with real raft loading) whose catalogue apply goroutine is fed bursts of
//   conf   Conn.AddNode / RemoveNode of other members (membership notifications),
//   create / delete dataset entries (Allocator.watch / unwatch per partition, raft load / unload),
//   replica-set changes that make the node load raft for a partition it already hosts.
// For every burst the Lean model (exhaustive exploration of the allocator LTS for that event list
// and situation) says whether a wedge is possible; the real node must finish applying everything
// (watchdog 20 s, goroutine dump on expiry) whenever the model says a wedge is impossible.

import (
	"context"
	"fmt"
	"runtime"
	"strings"
	"time"

	"github.com/golang/protobuf/proto"
	pb "github.com/marekgalovic/anndb/protobuf"
	uuid "github.com/satori/go.uuid"
)

func init() { register("wedge", runWedge) }

func createEntry(dsId uuid.UUID, parts int, nodeIds []uint64, repl uint32) ([]byte, []uuid.UUID) {
	d := &pb.Dataset{Id: dsId.Bytes(), Dimension: 2, Space: pb.Space_Euclidean, PartitionCount: uint32(parts), ReplicationFactor: repl}
	var pids []uuid.UUID
	for i := 0; i < parts; i++ {
		pid := uuid.NewV4()
		pids = append(pids, pid)
		d.Partitions = append(d.Partitions, &pb.Partition{Id: pid.Bytes(), NodeIds: append([]uint64{}, nodeIds...)})
	}
	dd, _ := proto.Marshal(d)
	e, _ := proto.Marshal(&pb.DatasetManagerChange{Type: pb.DatasetManagerChangeType_DatasetManagerCreateDataset, NotificationId: uuid.NewV4().Bytes(), Data: dd})
	return e, pids
}

func deleteEntry(dsId uuid.UUID) []byte {
	e, _ := proto.Marshal(&pb.DatasetManagerChange{Type: pb.DatasetManagerChangeType_DatasetManagerDeleteDataset, NotificationId: uuid.NewV4().Bytes(), Data: dsId.Bytes()})
	return e
}

func addNodeEntry(dsId, pid uuid.UUID, node uint64) []byte {
	ch, _ := proto.Marshal(&pb.DatasetPartitionNodesChange{Type: pb.DatasetPartitionNodesChangeType_DatasetPartitionNodesChangeAddNode, DatasetId: dsId.Bytes(), PartitionId: pid.Bytes(), NodeId: node})
	e, _ := proto.Marshal(&pb.DatasetManagerChange{Type: pb.DatasetManagerChangeType_DatasetManagerUpdatePartitionNodes, NotificationId: uuid.NewV4().Bytes(), Data: ch})
	return e
}

func goroutineDump() string {
	buf := make([]byte, 1<<20)
	n := runtime.Stack(buf, true)
	var keep []string
	for _, g := range strings.Split(string(buf[:n]), "\n\n") {
		if strings.Contains(g, "anndb/storage") || strings.Contains(g, "anndb/cluster") {
			lines := strings.Split(g, "\n")
			if len(lines) > 9 {
				lines = lines[:9]
			}
			keep = append(keep, strings.Join(lines, "\n"))
		}
	}
	if len(keep) > 6 {
		keep = keep[:6]
	}
	return strings.Join(keep, "\n--\n")
}

func runWedge(c *Ctx) {
	c.Stats.Rule = "bursts of membership notifications, dataset creations/deletions and replica-set changes fed to one node's catalogue apply goroutine (the order a restart replays them); the node is not the modifier of its partitions except in the D19 witness; non-trivial = burst with more than 10 consecutive notifications after a dataset creation, or a reload of an already loaded partition; distinct = distinct event list"
	rng := NewRng(c.Seed)
	nb := c.ArgInt("bursts", c.Pick(8, 80))
	ctx := context.Background()

	// one burst on a fresh node. modifier=false: partitions list node 99 first (this node cannot modify them).
	burst := func(label string, r *Rng, modifier bool, witness bool, script ...string) {
		c.Begin(label)
		defer c.End()
		cl := newSimCluster(1)
		n := cl.nodes[1]
		first := uint64(99)
		repl := uint32(2)
		if modifier {
			first = 1
		}
		hosts := []uint64{first, 1}
		if modifier {
			hosts = []uint64{1} // under-replicated: the loop will propose a replica for every joining node
		}
		var events []string // for the model: c = conf, w = watch/unwatch, (commit entries are the loop's own)
		nEvents := 0
		push := func(x interface{}) { n.group.inbox <- x; nEvents++ }
		type dsRec struct {
			id   uuid.UUID
			pids []uuid.UUID
		}
		var live []dsRec
		nextNode := uint64(100)
		var joined []uint64
		steps := 6 + r.Intn(c.Pick(14, 30))
		if witness || len(script) > 0 {
			steps = 0
		}
		conf := func() {
			if len(joined) > 0 && r.Intn(3) == 0 {
				id := joined[0]
				joined = joined[1:]
				push(func() { n.node.Conn.RemoveNode(id) })
			} else {
				id := nextNode
				nextNode++
				joined = append(joined, id)
				push(func() { n.node.Conn.AddNode(id, "x") })
			}
			events = append(events, "c")
		}
		create := func(parts int) {
			id := uuid.NewV4()
			e, pids := createEntry(id, parts, hosts, repl)
			push(e)
			live = append(live, dsRec{id, pids})
			for i := 0; i < parts; i++ {
				events = append(events, "w")
			}
		}
		for s := 0; s < steps; s++ {
			switch k := r.Intn(10); {
			case k < 3:
				parts := 1 + r.Intn(8)
				create(parts)
				if r.Intn(2) == 0 { // a long run of notifications right behind the creation
					for i, m := 0, 11+r.Intn(30); i < m; i++ {
						conf()
					}
					c.Nontrivial("long-notification-run-after-create")
				}
			case k < 5 && len(live) > 0:
				i := r.Intn(len(live))
				d := live[i]
				live = append(live[:i], live[i+1:]...)
				push(deleteEntry(d.id))
				for range d.pids {
					events = append(events, "w")
				}
			case k < 6 && len(live) > 0:
				// a replica-set change: naming another node (the loop is not involved), or naming this
				// node for a partition it hosts already - what a restart replays for a node that was
				// added to the partition after its creation: the partition is loaded a second time
				d := live[r.Intn(len(live))]
				if r.Intn(2) == 0 {
					push(addNodeEntry(d.id, d.pids[r.Intn(len(d.pids))], 98))
				} else {
					push(addNodeEntry(d.id, d.pids[r.Intn(len(d.pids))], 1))
					c.Nontrivial("reload-of-loaded-partition")
				}
				c.Nontrivial("replica-set-change")
			default:
				conf()
			}
		}
		for _, ev := range script { // corpus bursts
			switch ev {
			case "create":
				create(2)
			case "reload":
				d := live[len(live)-1]
				push(addNodeEntry(d.id, d.pids[0], 1))
				c.Nontrivial("reload-of-loaded-partition")
			case "delete":
				d := live[len(live)-1]
				live = live[:len(live)-1]
				push(deleteEntry(d.id))
				for range d.pids {
					events = append(events, "w")
				}
			case "conf":
				conf()
			case "settle":
				cnt := nEvents
				waitFor(3*time.Second, func() bool { return n.group.Applied() >= cnt })
				time.Sleep(50 * time.Millisecond)
			}
		}
		if witness {
			create(1)
			// let the partition load, then: a member joins, and a dataset is created right behind it
			waitFor(3*time.Second, func() bool { return n.group.Applied() == 1 })
			time.Sleep(20 * time.Millisecond)
			conf()
			create(1)
		} else {
			// drain probe: whatever happened, a final create must get its partition loaded and a final delete must unload it
			create(1)
		}
		c.OpLocal("events %s modifier=%v", strings.Join(events, ""), modifier)
		start := time.Now()
		patience := 20 * time.Second
		if witness {
			patience = 6 * time.Second
		}
		done := waitFor(patience, func() bool { return n.group.Applied() >= nEvents })
		probeOK := true
		if done && !witness {
			last := live[len(live)-1]
			probeOK = waitFor(5*time.Second, func() bool {
				d := cl.dataset(1, last.id)
				return d != nil && d.VerifPartitionAt(0).HasRaft()
			})
		}
		observed := "wedged"
		if done && probeOK {
			observed = "drained"
		}
		// keeps serving: every partition of every live dataset is hosted here, so its raft group must be loaded
		if done && probeOK && !witness {
			for _, dsr := range live {
				d := cl.dataset(1, dsr.id)
				if d == nil {
					continue
				}
				for pi := 0; pi < d.VerifPartitionCount(); pi++ {
					p := d.VerifPartitionAt(pi)
					if !waitFor(3*time.Second, func() bool { return p.HasRaft() }) {
						c.Violate("C18", "C18/partition-not-serving", fmt.Sprintf("after the burst the node hosts partition %d of a live dataset (replicas %v) but has no raft group loaded for it: writes to it are refused from now on", pi, p.NodeIds()), c.History())
					}
				}
			}
		}
		// the model explores every schedule of this event list in this situation and says whether the
		// observed outcome is one it allows (a wedge is allowed only if a stuck state is reachable)
		c.Op("wedge 10 0 %d 0 %s %s", b2i(modifier), strings.Join(events, ""), observed)
		c.Res("allowed")
		c.Count("outcome:" + observed)
		_ = start
		if ps := n.group.Panics(); len(ps) > 0 {
			c.Violate("C18", "C18/apply-goroutine-panics", "the catalogue apply goroutine panicked (in production the node dies): "+ps[0], c.History())
		}
		if !(done && probeOK) {
			what := fmt.Sprintf("the node applied %d of %d catalogue / membership events and then made no progress for %s", n.group.Applied(), nEvents, patience)
			dump := goroutineDump()
			if modifier {
				c.Violate("C18", "C18/loop-waits-for-commit", what+": the allocator loop waits (no timeout) for the catalogue commit of a replica change it proposed, while the apply goroutine that would apply it is blocked handing a watch/notification to the loop", map[string]interface{}{"events": c.History(), "goroutines": dump})
			} else {
				c.Violate("C18", "C18/control-plane-wedged", what+" although this node never has to propose from the loop", map[string]interface{}{"events": c.History(), "goroutines": dump})
			}
			return // the stuck goroutines cannot be torn down
		}
		cl.Close()
	}
	_ = ctx
	for b := 0; b < nb; b++ {
		burst("burst", rng.Fork(), false, false)
	}
	// corpus: a partition that is loaded, loaded again (replayed replica-set change), then unloaded
	burst("corpus load, reload, unload", rng.Fork(), false, false, "create", "settle", "reload", "settle", "delete", "settle", "create", "reload", "conf", "delete")
	// corpus: restart of a node that was added to a partition after the dataset was created. The
	// replay delivers the creation (the allocator is told to watch the partition) and then the
	// replica-set change naming this node (the partition loads its raft group at once); when the
	// allocator's loop gets to the watch it finds the node assigned and loads the partition again.
	{
		c.Begin("corpus restart of a replica added after creation")
		cl := newSimCluster(2)
		cl.enableCrashes()
		dsId, err := cl.createDataset(1, 2, 1, 1, pb.Space_Euclidean)
		if err == nil {
			d := cl.dataset(1, dsId)
			host := d.VerifPartitionAt(0).NodeIds()[0]
			other := uint64(3) - host
			cl.nodes[1].group.Propose(ctx, addNodeEntry(dsId, d.VerifPartitionAt(0).Id(), other))
			ok := waitFor(5*time.Second, func() bool { return cl.dataset(other, dsId).VerifPartitionAt(0).HasRaft() })
			c.OpLocal("dataset with one partition on node %d; replica-set change adds node %d; loaded there: %v", host, other, ok)
			for i := 0; i < 3 && ok; i++ {
				cl.nodes[other].ctl.kill()
				if _, err := cl.restartNode(other); err != nil {
					c.Violate("C18", "C18/restart-fails", err.Error(), c.History())
					break
				}
				time.Sleep(300 * time.Millisecond)
				c.OpLocal("restart %d of node %d", i+1, other)
				if !waitFor(3*time.Second, func() bool { return cl.dataset(other, dsId).VerifPartitionAt(0).HasRaft() }) {
					c.Violate("C18", "C18/partition-not-serving", fmt.Sprintf("node %d restarted with an existing dataset whose partition lists it as a replica (added after creation): after the catalogue replay it has no raft group loaded for the partition and refuses writes to it", other), c.History())
					break
				}
			}
			c.Nontrivial("restart-replay")
		} else {
			c.Note("corpus restart: create failed: %v", err)
		}
		cl.Close()
		c.End()
	}
	// corpus: D19 witness (known finding)
	burst("corpus-D19 modifier of an under-replicated partition: join, then create", rng.Fork(), true, true)
}
