package main

// Engine conc (C13): 2-16 goroutines concurrently Insert / Remove / Get / Len / Search one real
// index.Hnsw on overlapping ids — single writer with many readers (how the server uses it) and
// many writers (how the benchmark uses it). Every call is stamped with a logical start and end
// time. Checks: no panic; per id, the outcomes of inserts and removes admit a linearization as
// set operations (exhaustive search per id); Len at quiescence = live ids; every search result
// is sorted / duplicate-free / scored with the true distance and names no id that was definitely
// not stored at any instant of the search; the quiescent state satisfies the sequential
// structural invariant and search post-condition. The same engine is run once more by ./check in
// a binary built with -race (data-race reports are violations).

import (
	"github.com/marekgalovic/anndb/index/space"
	"context"
	"fmt"
	"sort"
	"sync"
	"sync/atomic"
	"time"

	"github.com/marekgalovic/anndb/index"
	amath "github.com/marekgalovic/anndb/math"
)

func init() { register("conc", runConc) }

type concOp struct {
	kind       string // ins rem
	id         int
	ok         bool
	start, end int64
}

type concSearch struct {
	start, end int64
	q          amath.Vector
	res        index.SearchResult
}

// linearizable: is there an order of the ops of one id, consistent with real time (a.end < b.start
// => a before b), in which every outcome is the sequential set outcome? (ops per id are few)
func linearizable(ops []concOp, initiallyPresent bool) bool {
	n := len(ops)
	// fast path: calls that never overlap have exactly one admissible order
	seq := true
	for i := 1; i < n; i++ {
		if ops[i].start < ops[i-1].end {
			seq = false
		}
	}
	if seq {
		present := initiallyPresent
		for _, o := range ops {
			if o.kind == "ins" {
				if o.ok == present {
					return false
				}
				present = true
			} else {
				if o.ok != present {
					return false
				}
				present = false
			}
		}
		return true
	}
	if n > 22 {
		return true // not decided (counted by the caller)
	}
	used := make([]bool, n)
	var rec func(done int, present bool) bool
	rec = func(done int, present bool) bool {
		if done == n {
			return true
		}
		for i := 0; i < n; i++ {
			if used[i] {
				continue
			}
			// i may go next only if no unused op ended before i started
			okNext := true
			for j := 0; j < n; j++ {
				if !used[j] && j != i && ops[j].end < ops[i].start {
					okNext = false
					break
				}
			}
			if !okNext {
				continue
			}
			var want bool
			var after bool
			if ops[i].kind == "ins" {
				want, after = !present, true
			} else {
				want, after = present, false
			}
			if ops[i].ok != want {
				continue
			}
			if !want {
				after = present
			}
			used[i] = true
			if rec(done+1, after) {
				return true
			}
			used[i] = false
		}
		return false
	}
	return rec(0, initiallyPresent)
}

func runConc(c *Ctx) {
	c.Stats.Rule = "concurrent histories on one index (2-16 goroutines, 20-40 overlapping ids, single-writer+readers and many-writers modes); non-trivial = some id has overlapping insert/remove calls from different goroutines, or a search overlaps a removal; distinct = (mode, goroutines, seed)"
	rng := NewRng(c.Seed)
	rounds := c.ArgInt("rounds", c.Pick(24, 300))
	if c.Args["mode"] == "dupinsert" {
		concDuplicateInsert(c, rng)
		return
	}
	// ---- read-only: many searches at once on an index nobody writes to. Every answer must meet C01's
	// post-condition exactly as a sequential search does (live items, true scores, ascending, no id twice,
	// at most k, non-empty): searches share nothing they may write. Reported for C01 and for C13.
	for variant := 0; variant < 2; variant++ {
		c.Begin(fmt.Sprintf("concurrent read-only searches on a static index (variant %d)", variant))
		r := rng.Fork()
		sp, spName := newSpace(variant)
		g := hnswCfg{m: 6, ef: 24, efC: 48, heur: variant == 1, keep: true}
		g.mMax, g.mMax0 = g.m, 2*g.m
		dim := 4
		h := index.NewHnsw(uint(dim), sp, g.options()...)
		N := c.Pick(1200, 4000)
		vecs := genVectors(r, N+1, dim, false)
		live := make([]bool, N+1)
		for id := 1; id <= N; id++ {
			if err := h.Insert(rid(id), vecs[id], index.Metadata{"n": fmt.Sprint(id)}, r.Intn(3)); err == nil {
				live[id] = true
			}
		}
		for id := 1; id <= N; id++ {
			if r.Intn(10) == 0 {
				if h.Remove(rid(id)) == nil {
					live[id] = false
				}
			}
		}
		G := 16
		per := c.Pick(500, 6000)
		var mu sync.Mutex
		fails := map[string]string{}
		fail := func(clause, what string) {
			mu.Lock()
			if _, ok := fails[clause]; !ok {
				fails[clause] = what
			}
			mu.Unlock()
		}
		var wg sync.WaitGroup
		for gi := 0; gi < G; gi++ {
			gr := r.Fork()
			wg.Add(1)
			go func(gr *Rng) {
				defer wg.Done()
				defer func() {
					if p := recover(); p != nil {
						fail("panic", fmt.Sprint(p))
					}
				}()
				for i := 0; i < per; i++ {
					q := make(amath.Vector, dim)
					for j := range q {
						q[j] = float32(gr.Norm())
					}
					k := 1 + gr.Intn(20)
					res, err := h.Search(context.Background(), q, uint(k))
					if err != nil {
						fail("error", err.Error())
						continue
					}
					if len(res) > k {
						fail("more-than-k", fmt.Sprintf("k=%d, %d items", k, len(res)))
					}
					if len(res) == 0 {
						fail("empty", fmt.Sprintf("k=%d on an index of %d items", k, h.Len()))
					}
					seen := map[int]int{}
					for pos, x := range res {
						id := int(x.Id[0]) | int(x.Id[1])<<8 // (idn() memoises in a shared map: not from goroutines)
						if prev, dup := seen[id]; dup {
							fail("duplicate-id", fmt.Sprintf("id %d at positions %d and %d of one answer (k=%d)", id, prev, pos, k))
						}
						seen[id] = pos
						if id < 1 || id > N || x.Id != rid(id) || !live[id] {
							fail("not-live", fmt.Sprintf("id %d is not stored", id))
							continue
						}
						if f32bits(sp.Distance(q, vecs[id])) != f32bits(x.Score) {
							fail("score", fmt.Sprintf("id %d returned with score %v, its distance is %v", id, x.Score, sp.Distance(q, vecs[id])))
						}
						if x.Metadata["n"] != fmt.Sprint(id) {
							fail("metadata", fmt.Sprintf("id %d returned with metadata %v", id, x.Metadata))
						}
						if pos > 0 && res[pos-1].Score > x.Score {
							fail("unsorted", fmt.Sprintf("scores %v then %v", res[pos-1].Score, x.Score))
						}
					}
				}
			}(gr)
		}
		wg.Wait()
		c.OpLocal("%s, heuristic=%v: %d items (%d live), %d goroutines x %d searches, k in 1..20", spName, g.heur, N, h.Len(), G, per)
		c.Stats.Evaluations += G * per / 1000
		for clause, what := range fails {
			msg := "with " + fmt.Sprint(G) + " searches running at once on an index nobody writes to, an answer violates the search post-condition (" + clause + "): " + what
			c.Violate("C01", "C01/concurrent-readers/"+clause, msg, c.History())
			c.Violate("C13", "C13/concurrent-readers/"+clause, msg, c.History())
		}
		c.Nontrivial("concurrent-readers")
		c.End()
	}
	// ---- read-only, small collection: n <= 2M+1 items, n <= ef (C07's regime). Every one of many
	// simultaneous searches must return exactly the brute-force ranking, as a lone search does.
	for variant := 0; variant < 2; variant++ {
		c.Begin(fmt.Sprintf("concurrent read-only searches on a small insert-only collection (variant %d)", variant))
		r := rng.Fork()
		sp, spName := newSpace(variant * 2)
		g := hnswCfg{m: 6, ef: 24, efC: 48, heur: variant == 1, keep: true}
		g.mMax, g.mMax0 = g.m, 2*g.m
		dim := 3
		h := index.NewHnsw(uint(dim), sp, g.options()...)
		N := 2*g.m + 1
		vecs := genVectors(r, N+1, dim, false)
		for id := 1; id <= N; id++ {
			h.Insert(rid(id), vecs[id], nil, r.Intn(3))
		}
		G, per := 12, c.Pick(1500, 20000)
		var mu sync.Mutex
		wrong, first := 0, ""
		var wg sync.WaitGroup
		for gi := 0; gi < G; gi++ {
			gr := r.Fork()
			wg.Add(1)
			go func(gr *Rng) {
				defer wg.Done()
				defer func() {
					if p := recover(); p != nil {
						mu.Lock()
						wrong++
						first = "panic: " + fmt.Sprint(p)
						mu.Unlock()
					}
				}()
				for i := 0; i < per; i++ {
					q := make(amath.Vector, dim)
					for j := range q {
						q[j] = float32(gr.Norm())
					}
					k := 1 + gr.Intn(N)
					res, _ := h.Search(context.Background(), q, uint(k))
					all := make([]uint32, 0, N)
					for id := 1; id <= N; id++ {
						all = append(all, f32bits(sp.Distance(q, vecs[id])))
					}
					sort.Slice(all, func(a, b int) bool { return all[a] < all[b] })
					ok := len(res) == k
					for pos := 0; ok && pos < k; pos++ {
						id := int(res[pos].Id[0]) | int(res[pos].Id[1])<<8
						if f32bits(res[pos].Score) != all[pos] || id < 1 || id > N || f32bits(sp.Distance(q, vecs[id])) != all[pos] {
							ok = false
						}
					}
					if !ok {
						mu.Lock()
						wrong++
						if first == "" {
							var got []uint32
							for _, x := range res {
								got = append(got, f32bits(x.Score))
							}
							first = fmt.Sprintf("k=%d: returned score bits %v, the %d nearest have %v", k, got, k, all[:k])
						}
						mu.Unlock()
					}
				}
			}(gr)
		}
		wg.Wait()
		c.OpLocal("%s, heuristic=%v: %d items (= 2M+1, below ef=%d), %d goroutines x %d searches, k in 1..%d: %d answers differ from the brute-force ranking", spName, g.heur, N, g.ef, G, per, N, wrong)
		c.Stats.Evaluations += G * per / 1000
		if wrong > 0 {
			msg := fmt.Sprintf("%d of %d simultaneous searches on a %d-item insert-only collection (M=%d, ef=%d) did not return exactly the k nearest in order; first: %s", wrong, G*per, N, g.m, g.ef, first)
			c.Violate("C07", "C07/concurrent-readers/not-exact", msg, c.History())
			c.Violate("C13", "C13/concurrent-readers/not-exact", msg, c.History())
		}
		c.Nontrivial("concurrent-readers-small")
		c.End()
	}
	if c.Args["mode"] == "readers" {
		return
	}
	// ---- a search that has read the entry point, and an insert likewise, go on from that vertex while the
	// single writer removes it completely (tombstone, unlinking, hand-over). The removed vertex is still
	// the way into the graph for whoever stands on it: the search must answer with live items (the index
	// holds dozens), not with nothing.
	for variant := 0; variant < 2; variant++ {
		c.Begin(fmt.Sprintf("a search standing on the entry point while it is removed (variant %d)", variant))
		inner, _ := newSpace(0)
		ps := &parkSpace{inner: inner, parked: make(chan struct{}, 1), release: make(chan struct{})}
		g := hnswCfg{m: 4, ef: 16, efC: 32, heur: variant == 1, keep: true}
		g.mMax, g.mMax0 = g.m, 2*g.m
		h := index.NewHnsw(2, ps, g.options()...)
		r := rng.Fork()
		vecs := genVectors(r, 41, 2, false)
		for id := 1; id <= 40; id++ {
			lvl := 0
			if id%9 == 0 {
				lvl = 1
			}
			if id == 20 {
				lvl = 2 // the entry point, alone on the top level
			}
			h.Insert(rid(id), vecs[id], nil, lvl)
		}
		type answer struct {
			res index.SearchResult
			err error
		}
		done := make(chan answer, 1)
		atomic.StoreInt32(&ps.armed, 1)
		go func() {
			res, err := h.Search(context.Background(), vecs[0], 5)
			done <- answer{res, err}
		}()
		parked := false
		select {
		case <-ps.parked:
			parked = true
		case <-time.After(5 * time.Second):
		}
		remErr := h.Remove(rid(20))
		close(ps.release)
		var a answer
		select {
		case a = <-done:
		case <-time.After(20 * time.Second):
			c.Violate("C13", "C13/deadlock", "a search that had read the entry point did not return within 20 s after the writer removed that vertex", c.History())
		}
		c.OpLocal("40 items, entry point id 20 (level 2); search parked after reading it: %v; Remove(20) -> %v; the search then returned %d items err=%v", parked, remErr, len(a.res), a.err)
		if parked && remErr == nil && a.err == nil {
			if len(a.res) == 0 {
				c.Violate("C13", "C13/search-empty-during-remove", "a search that read the entry point just before the single writer removed that vertex returned nothing, on an index that held 39 other items throughout", c.History())
			}
			for _, x := range a.res {
				if id := int(x.Id[0]) | int(x.Id[1])<<8; id == 20 || id < 1 || id > 40 {
					c.Violate("C13", "C13/search-returns-removed-entry-point", fmt.Sprintf("the search returned id %d, whose removal was complete before the search went on", id), c.History())
				}
			}
		}
		c.Nontrivial("search-parked-on-entry")
		c.End()
	}
	// ---- deterministic witness of D23: a search that starts between the tombstone and the entry hand-over
	{
		c.Begin("corpus-D23 search during remove of the entry point")
		sp, _ := newSpace(0)
		h := index.NewHnsw(2, sp)
		h.Insert(rid(1), amath.Vector{0, 0}, nil, 2)
		h.Insert(rid(2), amath.Vector{5, 5}, nil, 0)
		h.Insert(rid(3), amath.Vector{9, 9}, nil, 0)
		gate, resume := make(chan struct{}), make(chan struct{})
		index.VerifPause = func(p string) {
			if p == "remove:tombstoned" {
				gate <- struct{}{}
				<-resume
			}
		}
		done := make(chan error, 1)
		go func() { done <- h.Remove(rid(1)) }() // id 1 is the entry point (highest level)
		<-gate
		// Remove has erased and tombstoned id 1 (Get fails from now on); it has not yet handed over the entry point
		_, gerr := h.Get(rid(1))
		res, _ := h.Search(context.Background(), amath.Vector{0, 0}, 3)
		index.VerifPause = nil
		close(resume)
		<-done
		c.OpLocal("insert 1 (level 2), 2, 3; Remove(1) paused after its tombstone; Get(1) -> %v; Search starts now -> %v", gerr, res)
		for _, x := range res {
			if idn(x.Id) == 1 && gerr != nil {
				c.Violate("C13", "C13/search-returns-removed-entry-point", "a search that starts after Remove has erased and tombstoned the entry point, but before the hand-over, returns the removed item (it was not stored at any instant of the search)", c.History())
			}
		}
		c.Nontrivial("pause-witness")
		c.End()
	}
	// ---- deterministic witness with two writers: the entry point is handed to a vertex removed meanwhile
	{
		c.Begin("corpus-two-writers entry handed to a removed vertex")
		sp, _ := newSpace(0)
		h := index.NewHnsw(2, sp)
		h.Insert(rid(1), amath.Vector{0, 0}, nil, 2)
		h.Insert(rid(2), amath.Vector{1, 1}, nil, 0)
		h.Insert(rid(3), amath.Vector{9, 9}, nil, 0)
		gate, resume := make(chan struct{}), make(chan struct{})
		var once sync.Once
		index.VerifPause = func(p string) {
			if p == "remove:before-handover" {
				once.Do(func() { gate <- struct{}{}; <-resume })
			}
		}
		done := make(chan error, 1)
		go func() { done <- h.Remove(rid(1)) }() // writer A: has chosen id 2 (closest live neighbour) as the next entry point
		<-gate
		h.Remove(rid(2)) // writer B removes id 2 meanwhile
		close(resume)
		<-done
		index.VerifPause = nil
		d := h.VerifDump()
		c.OpLocal("insert 1 (level 2), 2, 3; writer A: Remove(1) paused before its entry-point CAS; writer B: Remove(2); A resumes")
		if d.HasEntry && (d.EntryDeleted || !d.EntryStored) {
			c.Violate("C13", "C13/many-writers/quiescent-invariant", "many concurrent writers: at quiescence the entry point is a removed vertex (writer A chose it as hand-over target while it was still stored, writer B removed it, A's CAS installed it)", c.History())
		}
		c.Nontrivial("two-writers-witness")
		c.End()
	}
	// ---- contended membership: G goroutines released together insert the same fresh id; exactly one succeeds
	if c.Args["mode"] != "single" {
		c.Begin("contended same-id inserts")
		sp, _ := newSpace(0)
		h := index.NewHnsw(2, sp)
		h.Insert(rid(0), amath.Vector{0, 0}, nil, 0)
		nRounds := c.Pick(1500, 12000)
		const G = 8
		for i := 1; i <= nRounds; i++ {
			var okCount int32
			var ready, wg sync.WaitGroup
			start := make(chan struct{})
			ready.Add(G)
			wg.Add(G)
			for g := 0; g < G; g++ {
				go func() {
					defer wg.Done()
					ready.Done()
					<-start
					if h.Insert(rid(1+i%500), amath.Vector{1, 1}, nil, 0) == nil {
						atomic.AddInt32(&okCount, 1)
					}
				}()
			}
			ready.Wait()
			before := h.Len()
			close(start)
			wg.Wait()
			if okCount != 1 || h.Len() != before+1 {
				c.Violate("C13", "C13/not-linearizable", fmt.Sprintf("%d goroutines inserted the same absent id concurrently: %d calls succeeded and Len grew by %d (a set admits exactly one)", G, okCount, h.Len()-before), c.History())
				break
			}
			if h.Remove(rid(1+i%500)) != nil {
				c.Violate("C13", "C13/not-linearizable", "remove of the id just inserted failed", c.History())
				break
			}
		}
		c.OpLocal("%d rounds x %d goroutines inserting one fresh id at a barrier", nRounds, G)
		c.Nontrivial("contended-inserts")
		c.End()
	}
	// ---- one writer takes the index from empty to three items and back, over and over, while readers search:
	// every transition through "first item" and "last item" is crossed thousands of times
	{
		c.Begin("empty <-> non-empty transitions under readers")
		sp, _ := newSpace(0)
		h := index.NewHnsw(2, sp)
		var stop int32
		var mu sync.Mutex
		var panics []string
		var bad []string
		var wg sync.WaitGroup
		for g := 0; g < 6; g++ {
			wg.Add(1)
			go func() {
				defer wg.Done()
				for atomic.LoadInt32(&stop) == 0 {
					func() {
						defer func() {
							if p := recover(); p != nil {
								mu.Lock()
								panics = append(panics, fmt.Sprint(p))
								mu.Unlock()
								atomic.StoreInt32(&stop, 1)
							}
						}()
						res, err := h.Search(context.Background(), amath.Vector{1, 1}, 3)
						if err != nil {
							mu.Lock()
							bad = append(bad, err.Error())
							mu.Unlock()
						}
						for _, x := range res {
							if n := int(x.Id[0]) | int(x.Id[1])<<8; n < 1 || n > 3 { // (idn() memoises in a shared map: not from reader goroutines)
								mu.Lock()
								bad = append(bad, fmt.Sprintf("returned id %d", n))
								mu.Unlock()
							}
						}
					}()
				}
			}()
		}
		cycles := c.Pick(4000, 40000)
		for i := 0; i < cycles && atomic.LoadInt32(&stop) == 0; i++ {
			for id := 1; id <= 3; id++ {
				h.Insert(rid(id), amath.Vector{float32(id), float32(id)}, nil, id%2)
			}
			for id := 1; id <= 3; id++ {
				h.Remove(rid(id))
			}
		}
		atomic.StoreInt32(&stop, 1)
		wg.Wait()
		c.OpLocal("%d cycles insert 1,2,3 / remove 1,2,3 by one writer; 6 readers searching", cycles)
		if len(panics) > 0 {
			c.Violate("C13", "C13/search-panics", "a Search running while the single writer inserts the first item into an empty index (or removes the last one) panicked: "+panics[0], c.History())
		}
		if len(bad) > 0 {
			c.Violate("C13", "C13/search-error", "a Search concurrent with the single writer failed or returned an id that was never stored: "+bad[0], c.History())
		}
		c.Nontrivial("empty-transitions")
		c.End()
	}
	for round := 0; round < rounds; round++ {
		r := rng.Fork()
		nG := 2 + r.Intn(15)
		singleWriter := round%2 == 0 || c.Args["mode"] == "single"
		nIds := 20 + r.Intn(20)
		if !singleWriter {
			nIds = 6 * nG // about 8 writes per id: the exhaustive linearizability search stays small
		}
		sp, spName := newSpace(r.Intn(3))
		g := hnswCfg{m: 2 + r.Intn(6), ef: 5 + r.Intn(20), efC: 10 + r.Intn(40), heur: r.Intn(2) == 0, keep: true}
		g.mMax, g.mMax0 = g.m, 2*g.m
		h := index.NewHnsw(3, sp, g.options()...)
		vecs := make([]amath.Vector, nIds)
		for i := range vecs {
			vecs[i] = amath.Vector{float32(r.Norm()) + 3, float32(r.Norm()) + 3, float32(r.Norm()) + 3}
		}
		c.Begin(fmt.Sprintf("conc %s goroutines=%d singleWriter=%v ids=%d", spName, nG, singleWriter, nIds))
		var clock int64
		tick := func() int64 { return atomic.AddInt64(&clock, 1) }
		var mu sync.Mutex
		var ops []concOp
		var searches []concSearch
		var panics []string
		opsPer := c.Pick(150, 400)
		if !singleWriter {
			opsPer = 70
		}
		var wg sync.WaitGroup
		for gi := 0; gi < nG; gi++ {
			wg.Add(1)
			writer := !singleWriter || gi == 0
			gr := r.Fork()
			go func() {
				defer wg.Done()
				defer func() {
					if p := recover(); p != nil {
						mu.Lock()
						panics = append(panics, fmt.Sprint(p))
						mu.Unlock()
					}
				}()
				for i := 0; i < opsPer; i++ {
					id := gr.Intn(nIds)
					k := gr.Intn(10)
					switch {
					case writer && k < 4:
						s := tick()
						err := h.Insert(rid(id), vecs[id], nil, gr.Intn(3))
						e := tick()
						mu.Lock()
						ops = append(ops, concOp{"ins", id, err == nil, s, e})
						mu.Unlock()
					case writer && k < 7:
						s := tick()
						err := h.Remove(rid(id))
						e := tick()
						mu.Lock()
						ops = append(ops, concOp{"rem", id, err == nil, s, e})
						mu.Unlock()
					case k < 8:
						h.Get(rid(id))
						h.Len()
					default:
						q := vecs[gr.Intn(nIds)]
						s := tick()
						res, _ := h.Search(context.Background(), q, uint(1+gr.Intn(6)))
						e := tick()
						mu.Lock()
						searches = append(searches, concSearch{s, e, q, res})
						mu.Unlock()
					}
				}
			}()
		}
		finished := make(chan struct{})
		go func() { wg.Wait(); close(finished) }()
		select {
		case <-finished:
		case <-time.After(60 * time.Second):
			c.Violate("C13", "C13/deadlock", "concurrent calls on one index did not finish within 60 s: "+goroutineDump(), c.History())
			c.End()
			return
		}
		c.OpLocal("%d goroutines x %d calls; %d insert/remove calls, %d searches", nG, opsPer, len(ops), len(searches))
		if len(panics) > 0 {
			c.Violate("C13", "C13/panic", "a concurrent call panicked: "+panics[0], c.History())
		}
		// ---- per-id linearizability
		byId := map[int][]concOp{}
		for _, o := range ops {
			byId[o.id] = append(byId[o.id], o)
		}
		overl := false
		live := map[int]bool{}
		for id, os := range byId {
			sort.Slice(os, func(i, j int) bool { return os[i].start < os[j].start })
			for i := 1; i < len(os); i++ {
				if os[i].start < os[i-1].end {
					overl = true
				}
			}
			if !linearizable(os, false) {
				var desc []string
				for _, o := range os {
					desc = append(desc, fmt.Sprintf("%s ok=%v [%d,%d]", o.kind, o.ok, o.start, o.end))
				}
				c.Violate("C13", "C13/not-linearizable", fmt.Sprintf("the outcomes of the insert/remove calls on id %d admit no order consistent with real time in which they are set operations: %v", id, desc), c.History())
			}
			// final membership: successes alternate, so count them
			ins, rem := 0, 0
			for _, o := range os {
				if o.ok && o.kind == "ins" {
					ins++
				}
				if o.ok && o.kind == "rem" {
					rem++
				}
			}
			if ins-rem == 1 {
				live[id] = true
			} else if ins-rem != 0 {
				c.Violate("C13", "C13/not-linearizable", fmt.Sprintf("id %d: %d successful inserts but %d successful removes", id, ins, rem), c.History())
			}
		}
		if overl {
			c.Nontrivial("overlapping-writers")
		}
		// ---- quiescent state
		d := h.VerifDump()
		if int(d.Len) != len(live) || len(d.Vertices) != len(live) || h.Len() != len(live) {
			c.Violate("C13", map[bool]string{true: "C13/len-mismatch", false: "C13/many-writers/quiescent-invariant"}[singleWriter], fmt.Sprintf("at quiescence Len=%d, stored=%d, live ids by the call outcomes=%d", h.Len(), len(d.Vertices), len(live)), c.History())
		}
		hr := &hnswRun{c: c, sp: sp, vecs: vecs, ref: map[int]refItem{}, dim: 3}
		for id := range live {
			hr.ref[id] = refItem{vec: id}
		}
		tag := "C13"
		if !singleWriter {
			tag = "C13mw"
		}
		hr.checkStructure(d, tag)
		for i := 0; i < 5; i++ {
			q := vecs[r.Intn(nIds)]
			res, _ := h.Search(context.Background(), q, 5)
			hr.checkSearch(q, 5, res, tag)
		}
		// many concurrent writers are known to break the quiescent invariants (see the deterministic witness
		// above and known_findings.json): report them as one family; everything else keeps its own signature
		for i := range c.Stats.Violations {
			v := &c.Stats.Violations[i]
			if v.Property == "C13mw" {
				v.Property = "C13"
				v.What = "many concurrent writers: at quiescence " + v.What
				v.Signature = "C13/many-writers/quiescent-invariant"
			}
		}
		// ---- searches during activity
		for _, s := range searches {
			seen := map[int]bool{}
			for i, x := range s.res {
				id := idn(x.Id)
				seen[id] = true // (an id may legitimately appear twice while it is being replaced: two incarnations, each stored at some instant)
				if i > 0 && s.res[i-1].Score > x.Score {
					c.Violate("C13", "C13/search-unsorted", "a concurrent search returned an unsorted list", c.History())
				}
				if id < len(vecs) && f32bits(sp.Distance(s.q, vecs[id])) != f32bits(x.Score) {
					c.Violate("C13", "C13/search-score", fmt.Sprintf("a concurrent search returned id %d with a score that is not its distance", id), c.History())
				}
				// definitely not stored at any instant of [s.start, s.end]?
				os := byId[id]
				stored := false
				for _, o := range os {
					if o.kind == "ins" && o.ok && o.start <= s.end {
						// this insert may have taken effect before the search ended; was it certainly undone before the search began?
						undone := false
						for _, p := range os {
							if p.kind == "rem" && p.ok && p.start > o.end && p.end < s.start {
								// a remove strictly after this insert and strictly before the search; it undoes this insert unless a later insert intervenes (handled by that insert's own turn)
								undone = true
							}
						}
						if !undone {
							stored = true
						}
					}
				}
				if !stored {
					removedBefore := false
					for _, p := range os {
						if p.kind == "rem" && p.ok && p.end < s.start {
							removedBefore = true
						}
					}
					sig := "C13/search-returns-never-stored"
					if removedBefore {
						sig = "C13/search-returns-removed-entry-point" // the only unchecked vertex of a search is its starting entry point
					}
					c.Violate("C13", sig, fmt.Sprintf("a search running in [%d,%d] returned id %d, which was not stored at any instant of that interval", s.start, s.end, id), c.History())
				}
			}
			for _, o := range ops {
				if o.kind == "rem" && o.start < s.end && o.end > s.start {
					c.nontr = true
				}
			}
		}
		c.End()
	}
}

// parkSpace wraps a metric: the first Distance call after `armed` is set waits until `release` is closed
// (the harness's way of holding one operation at the point where it has just read the entry point).
type parkSpace struct {
	inner   space.Space
	armed   int32
	parked  chan struct{}
	release chan struct{}
}

func (p *parkSpace) Distance(a, b amath.Vector) float32 {
	if atomic.CompareAndSwapInt32(&p.armed, 1, 0) {
		p.parked <- struct{}{}
		<-p.release
	}
	return p.inner.Distance(a, b)
}

// concDuplicateInsert (C02): the existence check and the store of a vertex are one step under the
// shard's lock. Several callers insert the same fresh id at once into a populated index nobody else
// writes to: exactly one is told success, the others "already exists"; what Get returns is the
// winner's vector; the item count is the number of live ids; after removing every id the index is
// empty and its raw byte counter is back to zero. (Only the winner ever touches the graph: the losers
// are turned away at the shard lock, so this is not a many-writers history in C13's sense.)
func concDuplicateInsert(c *Ctx, rng *Rng) {
	c.Stats.Rule = "rounds of 8 simultaneous inserts of one fresh id (distinct vectors) into a populated index; non-trivial = all callers left the barrier within the same round; distinct = round"
	roundsN := c.ArgInt("rounds", c.Pick(400, 6000))
	c.Begin(fmt.Sprintf("concurrent inserts of the same id, %d rounds of 8 callers", roundsN))
	defer c.End()
	sp, _ := newSpace(0)
	g := hnswCfg{m: 6, ef: 24, efC: 24, heur: false, keep: true}
	g.mMax, g.mMax0 = g.m, 2*g.m
	h := index.NewHnsw(2, sp, g.options()...)
	base := 40
	for id := 1; id <= base; id++ {
		if err := h.Insert(rid(id), amath.Vector{float32(id), float32(id % 7)}, nil, id%3); err != nil {
			c.OpLocal("set-up insert %d failed: %v", id, err)
			return
		}
	}
	const G = 8
	live := base
	for round := 0; round < roundsN; round++ {
		id := rid(1000 + round)
		var ready, wg sync.WaitGroup
		start := make(chan struct{})
		errs := make([]error, G)
		ready.Add(G)
		wg.Add(G)
		for w := 0; w < G; w++ {
			go func(w int) {
				defer wg.Done()
				ready.Done()
				<-start
				errs[w] = h.Insert(id, amath.Vector{float32(round), float32(w + 1)}, index.Metadata{"w": fmt.Sprint(w)}, w%3)
			}(w)
		}
		ready.Wait()
		close(start)
		wg.Wait()
		winners, other := []int{}, ""
		for w, e := range errs {
			if e == nil {
				winners = append(winners, w)
			} else if e != index.ItemAlreadyExistsError {
				other = e.Error()
			}
		}
		live++
		c.Nontrivial("simultaneous-duplicate-insert")
		v, gerr := h.Get(id)
		bad := ""
		switch {
		case other != "":
			bad = "a caller was told " + other
		case len(winners) != 1:
			bad = fmt.Sprintf("%d callers were told success (callers %v)", len(winners), winners)
		case gerr != nil:
			bad = "the id is not retrievable: " + gerr.Error()
		case v[1] != float32(winners[0]+1):
			bad = fmt.Sprintf("caller %d was told success but Get returns caller %d's vector", winners[0], int(v[1])-1)
		case int(h.Len()) != live:
			bad = fmt.Sprintf("Len() = %d with %d live ids", h.Len(), live)
		}
		if bad != "" {
			c.OpLocal("round %d: 8 simultaneous Insert(%s): %s", round, id, bad)
			c.Violate("C02", "C02/concurrent-duplicate-insert", fmt.Sprintf("8 simultaneous inserts of one fresh id into a populated index (round %d): %s — the existence check and the store are not one step", round, bad), c.History())
			return
		}
	}
	c.OpLocal("%d rounds: exactly one success each, the winner's vector retrievable, Len = live ids", roundsN)
	for id := 1; id <= base; id++ {
		h.Remove(rid(id))
	}
	for round := 0; round < roundsN; round++ {
		h.Remove(rid(1000 + round))
	}
	if h.Len() != 0 {
		c.Violate("C02", "C02/concurrent-duplicate-insert", fmt.Sprintf("after removing every id Len() = %d", h.Len()), c.History())
	}
}
