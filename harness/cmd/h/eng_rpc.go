package main

// Engine rpc (C12): every request class a client can send, against a real single-node stack (the
// gRPC service objects, DatasetManager, Dataset, partitions with real raft groups over on-disk
// Badger). One child process per class, because what is being looked for kills the process: a
// panic in a request handler (gRPC does not recover handler panics) or in a raft apply loop, a
// log.Fatal, an unbounded allocation. After the request the child checks that the node still
// serves (a valid write and a search), then stops the node and starts a new one over the same data
// directory, replaying the catalogue log and the partitions' raft logs (a poisoned entry kills the
// node again), and checks that it serves.

import (
	"sync"
	"context"
	"fmt"
	"math"
	"os"
	"strings"
	"syscall"
	"time"

	amath "github.com/marekgalovic/anndb/math"
	pb "github.com/marekgalovic/anndb/protobuf"
	uuid "github.com/satori/go.uuid"
)

func init() {
	register("rpc", runRpc)
	childHandlers["rpc"] = childRpc
}

type rpcClass struct {
	name   string
	expect string // ok | error: what a correct server answers
	what   string
}

var rpcClasses = []rpcClass{
	{"insert-malformed-id", "error", "Insert with a 3-byte id"},
	{"update-malformed-id", "error", "Update with a 3-byte id"},
	{"remove-malformed-id", "error", "Remove with a 3-byte id"},
	{"batch-insert-malformed-id", "error", "BatchInsert with one 3-byte id among valid items"},
	{"batch-update-malformed-id", "error", "BatchUpdate with one 3-byte id among valid items"},
	{"batch-remove-malformed-id", "error", "BatchRemove with one 3-byte id among valid items"},
	{"partition-batch-insert-malformed-id", "error", "PartitionBatchInsert (node-to-node RPC, reachable by any client) with a 3-byte id"},
	{"partition-batch-update-malformed-id", "error", "PartitionBatchUpdate with a 3-byte id"},
	{"partition-batch-remove-malformed-id", "error", "PartitionBatchRemove with a 3-byte id"},
	{"partition-batch-insert-wrong-dimension", "error", "PartitionBatchInsert with a 5-component vector into a 2-dimensional dataset, then a valid insert"},
	{"partition-batch-update-wrong-dimension", "error", "PartitionBatchUpdate with a 5-component vector, then a valid insert"},
	{"create-zero-dimension", "error", "create a dataset with dimension 0, then insert two items"},
	{"create-zero-partitions", "error", "create a dataset with partition count 0, then insert"},
	{"create-zero-replication", "error", "create a dataset with replication factor 0, then insert"},
	{"create-negative-space", "error", "Create with space = -1 (a proto3 enum is an int32 on the wire), then two inserts and a search"},
	{"create-unknown-space", "error", "create a dataset with metric enum value 7, then insert two items"},
	{"search-k-zero", "ok", "Search with k = 0"},
	{"search-k-max", "ok", "Search with k = 2^32-1"},
	{"search-partitions-k-max", "ok", "SearchPartitions with k = 2^32-1"},
	{"non-finite-vectors", "ok", "insert NaN / +Inf / -Inf vectors and search with a NaN query"},
	{"empty-vector", "error", "Insert with an empty vector"},
	{"update-without-metadata", "ok", "Update with nil metadata of an item that has metadata"},
	{"unknown-dataset", "error", "Insert into a dataset id that does not exist"},
	{"malformed-dataset-id", "error", "Insert with a 2-byte dataset id"},
	{"oversized-batch", "error", "BatchInsert with 101 items"},
	{"search-wrong-dimension", "error", "Search with a 7-component query"},
	{"search-partitions-unknown-partition", "error", "SearchPartitions naming a partition id that does not exist"},
	{"delete-malformed-id", "error", "Delete dataset with a 5-byte id"},
	{"partition-info-unknown", "error", "PartitionInfo for an unknown partition"},
	{"update-absent-id", "error", "Update of a well-formed id that is not stored"},
	{"remove-absent-id", "error", "Remove of a well-formed id that is not stored"},
	{"insert-existing-id", "error", "Insert of an id that is already stored"},
	{"remove-twice", "error", "Insert, Remove, Remove and Update of the same id"},
	{"insert-oversized-metadata", "error", "Insert with a 300-byte metadata key (the snapshot format holds 255)"},
	{"update-oversized-metadata", "error", "Update of a stored id with a 70000-byte metadata value; the item must stay"},
	{"insert-oversized-multibyte-key", "error", "Insert with a metadata key of 200 two-byte characters: 400 bytes, the snapshot format's length field holds 255 (the limits are on bytes)"},
	{"update-oversized-multibyte-value", "error", "Update of a stored id with a metadata value of 40000 two-byte characters (80000 bytes; the format holds 65535); the item must stay"},
	{"batch-insert-client-level", "ok", "BatchInsert whose items carry client-chosen levels -7, 2^30 and -1 (a wire field): the items are stored at levels the server drew"},
	{"partition-batch-insert-client-level", "ok", "PartitionBatchInsert (node-to-node RPC, open to any client) whose items carry levels -7 and 2^30"},
	{"cosine-zero-vector", "ok", "a cosine dataset of 250 items: insert and search the zero vector (every distance is NaN), then an ordinary insert"},
	{"batch-duplicate-and-absent", "ok", "BatchUpdate / BatchRemove mixing duplicates and absent ids"},
	{"delete-dataset-under-write-load", "ok", "25 x (create a dataset, write to it from three clients, delete it while they write)"},
}

func runRpc(c *Ctx) {
	c.Stats.Rule = "one child process per request class (42 classes: malformed / truncated ids on every write RPC incl. the node-to-node PartitionBatch* RPCs, wrong and zero dimensions, zero partition / replica counts, unknown metric, k = 0 and k = 2^32-1, non-finite numbers, missing metadata, oversized batches, unknown ids) against a real single-node stack on disk, followed by a liveness probe and a restart that replays everything the requests left in the logs; every class is a distinct non-trivial case"
	base := os.Getenv("VERIF_TMP")
	if base == "" {
		base = os.TempDir()
	}
	only := c.Args["class"]
	// the classes are independent (one child process and one data directory each): run several at once,
	// report in table order
	type childRes struct {
		out  string
		died bool
	}
	results := make([]childRes, len(rpcClasses))
	sem := make(chan struct{}, c.ArgInt("par", 6))
	var wg sync.WaitGroup
	for i, cl := range rpcClasses {
		if only != "" && only != cl.name {
			continue
		}
		wg.Add(1)
		go func(i int, name string) {
			defer wg.Done()
			sem <- struct{}{}
			defer func() { <-sem }()
			dir, err := os.MkdirTemp(base, "verif-rpc-")
			if err != nil {
				panic(err)
			}
			out, died := runChild(120*time.Second, "rpc", name, dir)
			os.RemoveAll(dir)
			results[i] = childRes{out, died}
		}(i, cl.name)
	}
	wg.Wait()
	for i, cl := range rpcClasses {
		if only != "" && only != cl.name {
			continue
		}
		c.Begin("rpc " + cl.name)
		out, died := results[i].out, results[i].died
		c.OpLocal("%s -> %s", cl.what, strings.ReplaceAll(strings.TrimSpace(out), "\n", " ; "))
		c.Nontrivial(cl.name)
		lines := strings.Split(strings.TrimSpace(out), "\n")
		get := func(prefix string) string {
			for _, l := range lines {
				if strings.HasPrefix(l, prefix+" ") {
					return strings.TrimPrefix(l, prefix+" ")
				}
			}
			return ""
		}
		req, alive, restart := get("req"), get("alive"), get("restart")
		sig := "C12/" + cl.name
		switch {
		case strings.HasPrefix(req, "panic"):
			c.Violate("C12", sig, fmt.Sprintf("%s: the request handler panicked (a gRPC server does not recover handler panics: the node dies): %s", cl.what, req), c.History())
		case died && restart == "" && alive == "":
			c.Violate("C12", sig, fmt.Sprintf("%s: the server process died: %s", cl.what, lastLines(out, 3)), c.History())
		case alive != "ok":
			c.Violate("C12", sig, fmt.Sprintf("%s: afterwards the node no longer serves (%s): %s", cl.what, alive, lastLines(out, 3)), c.History())
		case restart != "ok":
			c.Violate("C12", sig, fmt.Sprintf("%s: the node does not come back after a restart that replays its logs (%s): %s", cl.what, restart, lastLines(out, 3)), c.History())
		case cl.expect == "error" && req == "ok":
			c.Violate("C12", sig+"/accepted", fmt.Sprintf("%s was accepted with success", cl.what), c.History())
		case cl.expect == "ok" && req != "ok":
			c.Violate("C12", sig+"/rejected", fmt.Sprintf("%s should be answered, got %s", cl.what, req), c.History())
		}
		// model tie: the Lean decision model names the outcome class of every request class
		c.Op("rpc %s", cl.name)
		if strings.HasPrefix(req, "error") {
			c.Res("error")
		} else {
			c.Res("%s", strings.SplitN(req+" ", " ", 2)[0])
		}
		c.End()
	}
}

func lastLines(s string, n int) string {
	ls := strings.Split(strings.TrimSpace(s), "\n")
	if len(ls) > n {
		ls = ls[len(ls)-n:]
	}
	return strings.Join(ls, " | ")
}

// ---------------------------------------------------------------- child

func childRpc(args []string) {
	class, dir := args[0], args[1]
	var lim syscall.Rlimit
	lim.Cur, lim.Max = 12<<30, 12<<30
	syscall.Setrlimit(syscall.RLIMIT_AS, &lim)
	ctx, cancel := context.WithTimeout(context.Background(), 60*time.Second)
	defer cancel()
	cl := newSimClusterAt(1, dir)
	n := cl.nodes[1]
	dsId, err := cl.createDataset(1, 2, 2, 1, pb.Space_Euclidean)
	if err != nil {
		fmt.Println("setup failed:", err)
		os.Exit(4)
	}
	for i := 0; i < 6; i++ {
		n.dmSrv.Insert(ctx, &pb.InsertRequest{DatasetId: dsId.Bytes(), Id: rid(i).Bytes(), Value: amath.Vector{float32(i), 1}, Metadata: map[string]string{"k": "v"}})
	}
	// enough items for the index to have upper levels (about one item in sixteen is above level 0): the
	// greedy descent through them is part of every insert and search
	if class == "non-finite-vectors" || class == "search-k-max" || class == "empty-vector" {
		for b := 0; b < 3; b++ {
			var items []*pb.BatchItem
			for i := 0; i < 100; i++ {
				k := 1000 + b*100 + i
				items = append(items, &pb.BatchItem{Id: rid(k).Bytes(), Value: amath.Vector{float32(k%37) - 18, float32(k%11) + 0.5}})
			}
			n.dmSrv.BatchInsert(ctx, &pb.BatchRequest{DatasetId: dsId.Bytes(), Items: items})
		}
	}
	d := cl.dataset(1, dsId)
	pid := d.VerifPartitionAt(d.VerifOwnerIndex(rid(50))).Id()
	bad := []byte{1, 2, 3}
	valid := func(i int) *pb.BatchItem { return &pb.BatchItem{Id: rid(i).Bytes(), Value: amath.Vector{float32(i), 2}} }
	var targetDs uuid.UUID = dsId // the dataset the liveness probe and the restart look at
	report := func(err error) string {
		if err != nil {
			return "error " + strings.ReplaceAll(err.Error(), "\n", " ")
		}
		return "ok"
	}
	do := func() (res string) {
		defer func() {
			if r := recover(); r != nil {
				res = fmt.Sprintf("panic %v", r)
			}
		}()
		createAndUse := func(req *pb.Dataset, vec amath.Vector) string {
			meta, err := n.dsSrv.Create(ctx, req)
			if err != nil {
				return report(err)
			}
			id := uuid.FromBytesOrNil(meta.GetId())
			cl.injectClients(id)
			time.Sleep(100 * time.Millisecond) // partitions load
			if dd := cl.dataset(1, id); dd != nil {
				for pi := 0; pi < dd.VerifPartitionCount(); pi++ {
					if r := dd.VerifPartitionAt(pi).Raft(); r != nil {
						r.VerifCampaign()
					}
				}
			}
			time.Sleep(100 * time.Millisecond)
			for i := 0; i < 3; i++ {
				n.dmSrv.Insert(ctx, &pb.InsertRequest{DatasetId: id.Bytes(), Id: rid(100 + i).Bytes(), Value: vec})
			}
			srv := &fakeServerStream{ctx: ctx}
			n.searchSrv.Search(&pb.SearchRequest{DatasetId: id.Bytes(), Query: vec, K: 2}, srv)
			return "ok" // accepted: whether it then breaks the node shows in alive / restart
		}
		switch class {
		case "insert-malformed-id":
			_, err := n.dmSrv.Insert(ctx, &pb.InsertRequest{DatasetId: dsId.Bytes(), Id: bad, Value: amath.Vector{1, 1}})
			return report(err)
		case "update-malformed-id":
			_, err := n.dmSrv.Update(ctx, &pb.UpdateRequest{DatasetId: dsId.Bytes(), Id: bad, Value: amath.Vector{1, 1}})
			return report(err)
		case "remove-malformed-id":
			_, err := n.dmSrv.Remove(ctx, &pb.RemoveRequest{DatasetId: dsId.Bytes(), Id: bad})
			return report(err)
		case "batch-insert-malformed-id", "batch-update-malformed-id", "batch-remove-malformed-id":
			items := []*pb.BatchItem{valid(20), {Id: bad, Value: amath.Vector{1, 1}}, valid(21)}
			var resp *pb.BatchResponse
			var err error
			switch class {
			case "batch-insert-malformed-id":
				resp, err = n.dmSrv.BatchInsert(ctx, &pb.BatchRequest{DatasetId: dsId.Bytes(), Items: items})
			case "batch-update-malformed-id":
				resp, err = n.dmSrv.BatchUpdate(ctx, &pb.BatchRequest{DatasetId: dsId.Bytes(), Items: items})
			default:
				resp, err = n.dmSrv.BatchRemove(ctx, &pb.BatchRequest{DatasetId: dsId.Bytes(), Items: items})
			}
			if err == nil && len(resp.GetErrors()) > 0 {
				return "error per-item " + fmt.Sprint(len(resp.GetErrors()))
			}
			return report(err)
		case "partition-batch-insert-malformed-id", "partition-batch-update-malformed-id", "partition-batch-remove-malformed-id":
			req := &pb.PartitionBatchRequest{DatasetId: dsId.Bytes(), PartitionId: pid.Bytes(), Items: []*pb.BatchItem{{Id: bad, Value: amath.Vector{1, 1}}}}
			var err error
			switch class {
			case "partition-batch-insert-malformed-id":
				_, err = n.dmSrv.PartitionBatchInsert(ctx, req)
			case "partition-batch-update-malformed-id":
				_, err = n.dmSrv.PartitionBatchUpdate(ctx, req)
			default:
				_, err = n.dmSrv.PartitionBatchRemove(ctx, req)
			}
			return report(err)
		case "batch-insert-client-level":
			items := []*pb.BatchItem{valid(20), valid(21), valid(22)}
			items[0].Level, items[1].Level, items[2].Level = -7, 1<<30, -1
			resp, err := n.dmSrv.BatchInsert(ctx, &pb.BatchRequest{DatasetId: dsId.Bytes(), Items: items})
			if err == nil && len(resp.GetErrors()) > 0 {
				return "error per-item " + fmt.Sprint(resp.GetErrors())
			}
			return report(err)
		case "partition-batch-insert-client-level":
			var items []*pb.BatchItem
			for i := 60; i < 90 && len(items) < 2; i++ { // ids owned by that partition
				if d.VerifPartitionAt(d.VerifOwnerIndex(rid(i))).Id() == pid {
					items = append(items, &pb.BatchItem{Id: rid(i).Bytes(), Value: amath.Vector{float32(i), 2}})
				}
			}
			items[0].Level, items[1].Level = -7, 1<<30
			resp, err := n.dmSrv.PartitionBatchInsert(ctx, &pb.PartitionBatchRequest{DatasetId: dsId.Bytes(), PartitionId: pid.Bytes(), Items: items})
			if err == nil && len(resp.GetErrors()) > 0 {
				return "error per-item " + fmt.Sprint(resp.GetErrors())
			}
			return report(err)
		case "partition-batch-insert-wrong-dimension", "partition-batch-update-wrong-dimension":
			// an id owned by that partition
			id := 50
			req := &pb.PartitionBatchRequest{DatasetId: dsId.Bytes(), PartitionId: pid.Bytes(), Items: []*pb.BatchItem{{Id: rid(id).Bytes(), Value: amath.Vector{1, 2, 3, 4, 5}}}}
			var resp *pb.BatchResponse
			var err error
			if class == "partition-batch-insert-wrong-dimension" {
				resp, err = n.dmSrv.PartitionBatchInsert(ctx, req)
			} else {
				n.dmSrv.Insert(ctx, &pb.InsertRequest{DatasetId: dsId.Bytes(), Id: rid(id).Bytes(), Value: amath.Vector{5, 5}})
				resp, err = n.dmSrv.PartitionBatchUpdate(ctx, req)
			}
			if err == nil && len(resp.GetErrors()) > 0 {
				return "error per-item"
			}
			return report(err)
		case "create-zero-dimension":
			return createAndUse(&pb.Dataset{Dimension: 0, Space: pb.Space_Euclidean, PartitionCount: 1, ReplicationFactor: 1}, amath.Vector{})
		case "create-zero-partitions":
			return createAndUse(&pb.Dataset{Dimension: 2, Space: pb.Space_Euclidean, PartitionCount: 0, ReplicationFactor: 1}, amath.Vector{1, 1})
		case "create-zero-replication":
			return createAndUse(&pb.Dataset{Dimension: 2, Space: pb.Space_Euclidean, PartitionCount: 1, ReplicationFactor: 0}, amath.Vector{1, 1})
		case "create-negative-space":
			return createAndUse(&pb.Dataset{Dimension: 2, Space: pb.Space(-1), PartitionCount: 1, ReplicationFactor: 1}, amath.Vector{1, 1})
		case "create-unknown-space":
			return createAndUse(&pb.Dataset{Dimension: 2, Space: pb.Space(7), PartitionCount: 1, ReplicationFactor: 1}, amath.Vector{1, 1})
		case "search-k-zero", "search-k-max":
			k := uint32(0)
			if class == "search-k-max" {
				k = math.MaxUint32
			}
			srv := &fakeServerStream{ctx: ctx}
			return report(n.searchSrv.Search(&pb.SearchRequest{DatasetId: dsId.Bytes(), Query: amath.Vector{1, 1}, K: k}, srv))
		case "search-partitions-k-max":
			srv := &fakeServerStream{ctx: ctx}
			return report(n.searchSrv.SearchPartitions(&pb.SearchPartitionsRequest{DatasetId: dsId.Bytes(), PartitionIds: [][]byte{pid.Bytes()}, Query: amath.Vector{1, 1}, K: math.MaxUint32}, srv))
		case "non-finite-vectors":
			nan, inf := float32(math.NaN()), float32(math.Inf(1))
			for i, v := range []amath.Vector{{nan, 1}, {inf, 1}, {-inf, nan}, {nan, nan}} {
				if _, err := n.dmSrv.Insert(ctx, &pb.InsertRequest{DatasetId: dsId.Bytes(), Id: rid(30 + i).Bytes(), Value: v}); err != nil {
					return report(err)
				}
			}
			srv := &fakeServerStream{ctx: ctx}
			if err := n.searchSrv.Search(&pb.SearchRequest{DatasetId: dsId.Bytes(), Query: amath.Vector{nan, inf}, K: 5}, srv); err != nil {
				return report(err)
			}
			_, err := n.dmSrv.Remove(ctx, &pb.RemoveRequest{DatasetId: dsId.Bytes(), Id: rid(31).Bytes()})
			return report(err)
		case "cosine-zero-vector":
			meta, err := n.dsSrv.Create(ctx, &pb.Dataset{Dimension: 2, Space: pb.Space_Cosine, PartitionCount: 1, ReplicationFactor: 1})
			if err != nil {
				return report(err)
			}
			id := uuid.FromBytesOrNil(meta.GetId())
			cl.injectClients(id)
			waitFor(5*time.Second, func() bool { dd := cl.dataset(1, id); return dd != nil && dd.VerifPartitionAt(0).HasRaft() })
			if dd := cl.dataset(1, id); dd != nil && dd.VerifPartitionAt(0).HasRaft() {
				dd.VerifPartitionAt(0).Raft().VerifCampaign()
			}
			time.Sleep(200 * time.Millisecond)
			for b := 0; b < 3; b++ {
				var items []*pb.BatchItem
				for i := 0; i < 84; i++ {
					k := 2000 + b*100 + i
					items = append(items, &pb.BatchItem{Id: rid(k).Bytes(), Value: amath.Vector{float32(k%37) - 18.5, float32(k%11) + 0.5}})
				}
				if _, err := n.dmSrv.BatchInsert(ctx, &pb.BatchRequest{DatasetId: id.Bytes(), Items: items}); err != nil {
					return report(err)
				}
			}
			short := func(f func(c context.Context) error) error {
				c2, cancel := context.WithTimeout(ctx, 8*time.Second)
				defer cancel()
				return f(c2)
			}
			// the answers to the zero vector itself are not judged (its distances are NaN); what follows must work
			short(func(c context.Context) error {
				_, e := n.dmSrv.Insert(c, &pb.InsertRequest{DatasetId: id.Bytes(), Id: rid(2900).Bytes(), Value: amath.Vector{0, 0}})
				return e
			})
			done := make(chan struct{})
			go func() {
				defer close(done)
				defer func() { recover() }()
				n.searchSrv.Search(&pb.SearchRequest{DatasetId: id.Bytes(), Query: amath.Vector{0, 0}, K: 3}, &fakeServerStream{ctx: ctx})
			}()
			select {
			case <-done:
			case <-time.After(8 * time.Second):
				return "error a search for the zero vector in a cosine dataset does not return (8 s)"
			}
			if err := short(func(c context.Context) error {
				_, e := n.dmSrv.Insert(c, &pb.InsertRequest{DatasetId: id.Bytes(), Id: rid(2901).Bytes(), Value: amath.Vector{1, 2}})
				return e
			}); err != nil {
				return "error after the zero vector was inserted into a cosine dataset an ordinary insert fails: " + err.Error()
			}
			targetDs = id
			return "ok"
		case "empty-vector":
			_, err := n.dmSrv.Insert(ctx, &pb.InsertRequest{DatasetId: dsId.Bytes(), Id: rid(40).Bytes()})
			return report(err)
		case "update-without-metadata":
			_, err := n.dmSrv.Update(ctx, &pb.UpdateRequest{DatasetId: dsId.Bytes(), Id: rid(1).Bytes(), Value: amath.Vector{3, 3}})
			if err == nil {
				_, err2 := n.dmSrv.BatchUpdate(ctx, &pb.BatchRequest{DatasetId: dsId.Bytes(), Items: []*pb.BatchItem{{Id: rid(2).Bytes(), Value: amath.Vector{4, 4}}}})
				err = err2
			}
			return report(err)
		case "unknown-dataset":
			_, err := n.dmSrv.Insert(ctx, &pb.InsertRequest{DatasetId: uuid.NewV4().Bytes(), Id: rid(1).Bytes(), Value: amath.Vector{1, 1}})
			return report(err)
		case "malformed-dataset-id":
			_, err := n.dmSrv.Insert(ctx, &pb.InsertRequest{DatasetId: []byte{9, 9}, Id: rid(1).Bytes(), Value: amath.Vector{1, 1}})
			return report(err)
		case "oversized-batch":
			var items []*pb.BatchItem
			for i := 0; i < 101; i++ {
				items = append(items, valid(200+i))
			}
			_, err := n.dmSrv.BatchInsert(ctx, &pb.BatchRequest{DatasetId: dsId.Bytes(), Items: items})
			return report(err)
		case "search-wrong-dimension":
			srv := &fakeServerStream{ctx: ctx}
			return report(n.searchSrv.Search(&pb.SearchRequest{DatasetId: dsId.Bytes(), Query: amath.Vector{1, 2, 3, 4, 5, 6, 7}, K: 3}, srv))
		case "search-partitions-unknown-partition":
			srv := &fakeServerStream{ctx: ctx}
			return report(n.searchSrv.SearchPartitions(&pb.SearchPartitionsRequest{DatasetId: dsId.Bytes(), PartitionIds: [][]byte{pid.Bytes(), uuid.NewV4().Bytes()}, Query: amath.Vector{1, 1}, K: 3}, srv))
		case "delete-dataset-under-write-load":
			for round := 0; round < 25; round++ {
				meta, err := n.dsSrv.Create(ctx, &pb.Dataset{Dimension: 2, Space: pb.Space_Euclidean, PartitionCount: 1, ReplicationFactor: 1})
				if err != nil {
					return "error unexpected: " + err.Error()
				}
				id := uuid.FromBytesOrNil(meta.GetId())
				cl.injectClients(id)
				waitFor(2*time.Second, func() bool {
					dd := cl.dataset(1, id)
					return dd != nil && dd.VerifPartitionAt(0).HasRaft()
				})
				if dd := cl.dataset(1, id); dd != nil && dd.VerifPartitionAt(0).HasRaft() {
					dd.VerifPartitionAt(0).Raft().VerifCampaign()
				}
				stop := make(chan struct{})
				var wg sync.WaitGroup
				for w := 0; w < 3; w++ {
					wg.Add(1)
					go func(w int) {
						defer wg.Done()
						for i := 0; ; i++ {
							select {
							case <-stop:
								return
							default:
							}
							wctx, wcancel := context.WithTimeout(ctx, 300*time.Millisecond)
							n.dmSrv.Insert(wctx, &pb.InsertRequest{DatasetId: id.Bytes(), Id: rid(w*1000 + i).Bytes(), Value: amath.Vector{float32(i), 1}})
							wcancel()
						}
					}(w)
				}
				time.Sleep(time.Duration(20+round*3) * time.Millisecond)
				_, derr := n.dsSrv.Delete(ctx, &pb.UUIDRequest{Id: id.Bytes()})
				time.Sleep(20 * time.Millisecond)
				close(stop)
				wg.Wait()
				if derr != nil {
					return "error unexpected: delete: " + derr.Error()
				}
			}
			return "ok"
		case "delete-malformed-id":
			_, err := n.dsSrv.Delete(ctx, &pb.UUIDRequest{Id: []byte{1, 2, 3, 4, 5}})
			return report(err)
		case "partition-info-unknown":
			_, err := n.dmSrv.PartitionInfo(ctx, &pb.PartitionInfoRequest{DatasetId: dsId.Bytes(), PartitionId: uuid.NewV4().Bytes()})
			return report(err)
		case "update-absent-id":
			_, err := n.dmSrv.Update(ctx, &pb.UpdateRequest{DatasetId: dsId.Bytes(), Id: rid(77).Bytes(), Value: amath.Vector{3, 3}})
			return report(err)
		case "remove-absent-id":
			_, err := n.dmSrv.Remove(ctx, &pb.RemoveRequest{DatasetId: dsId.Bytes(), Id: rid(77).Bytes()})
			return report(err)
		case "insert-existing-id":
			_, err := n.dmSrv.Insert(ctx, &pb.InsertRequest{DatasetId: dsId.Bytes(), Id: rid(1).Bytes(), Value: amath.Vector{3, 3}})
			return report(err)
		case "insert-oversized-metadata":
			_, err := n.dmSrv.Insert(ctx, &pb.InsertRequest{DatasetId: dsId.Bytes(), Id: rid(79).Bytes(), Value: amath.Vector{3, 3}, Metadata: map[string]string{strings.Repeat("k", 300): "v"}})
			return report(err)
		case "insert-oversized-multibyte-key":
			_, err := n.dmSrv.Insert(ctx, &pb.InsertRequest{DatasetId: dsId.Bytes(), Id: rid(80).Bytes(), Value: amath.Vector{3, 3}, Metadata: map[string]string{strings.Repeat("\u00e9", 200): "v"}})
			return report(err)
		case "update-oversized-multibyte-value":
			_, err := n.dmSrv.Update(ctx, &pb.UpdateRequest{DatasetId: dsId.Bytes(), Id: rid(1).Bytes(), Value: amath.Vector{3, 3}, Metadata: map[string]string{"k": strings.Repeat("\u00e9", 40000)}})
			if err == nil {
				return "ok oversized update accepted"
			}
			if _, err2 := n.dmSrv.Update(ctx, &pb.UpdateRequest{DatasetId: dsId.Bytes(), Id: rid(1).Bytes(), Value: amath.Vector{4, 4}, Metadata: map[string]string{"k": "v"}}); err2 != nil {
				return "ok the refused update removed the item: " + err2.Error()
			}
			return report(err)
		case "update-oversized-metadata":
			_, err := n.dmSrv.Update(ctx, &pb.UpdateRequest{DatasetId: dsId.Bytes(), Id: rid(1).Bytes(), Value: amath.Vector{3, 3}, Metadata: map[string]string{"k": strings.Repeat("v", 70000)}})
			if err == nil {
				return "ok oversized update accepted"
			}
			if _, err2 := n.dmSrv.Update(ctx, &pb.UpdateRequest{DatasetId: dsId.Bytes(), Id: rid(1).Bytes(), Value: amath.Vector{4, 4}, Metadata: map[string]string{"k": "v"}}); err2 != nil {
				return "ok the refused update removed the item: " + err2.Error()
			}
			return report(err)
		case "remove-twice":
			if _, err := n.dmSrv.Insert(ctx, &pb.InsertRequest{DatasetId: dsId.Bytes(), Id: rid(78).Bytes(), Value: amath.Vector{3, 3}}); err != nil {
				return "error unexpected: " + err.Error()
			}
			if _, err := n.dmSrv.Remove(ctx, &pb.RemoveRequest{DatasetId: dsId.Bytes(), Id: rid(78).Bytes()}); err != nil {
				return "error unexpected: " + err.Error()
			}
			if _, err := n.dmSrv.Remove(ctx, &pb.RemoveRequest{DatasetId: dsId.Bytes(), Id: rid(78).Bytes()}); err == nil {
				return "ok second remove succeeded"
			}
			_, err := n.dmSrv.Update(ctx, &pb.UpdateRequest{DatasetId: dsId.Bytes(), Id: rid(78).Bytes(), Value: amath.Vector{3, 3}})
			return report(err)
		case "batch-duplicate-and-absent":
			items := []*pb.BatchItem{valid(1), valid(1), valid(77), valid(2)}
			if _, err := n.dmSrv.BatchUpdate(ctx, &pb.BatchRequest{DatasetId: dsId.Bytes(), Items: items}); err != nil {
				return report(err)
			}
			_, err := n.dmSrv.BatchRemove(ctx, &pb.BatchRequest{DatasetId: dsId.Bytes(), Items: items})
			return report(err)
		}
		return "error unknown class"
	}
	res := do()
	fmt.Println("req", res)
	os.Stdout.Sync()
	time.Sleep(150 * time.Millisecond) // let raft apply loops process whatever was proposed
	if ps := n.group.Panics(); len(ps) > 0 {
		fmt.Println("alive catalogue-apply-panicked", ps[0])
		os.Exit(5)
	}
	probe := func(node *simNode, tag int) string {
		pctx, pcancel := context.WithTimeout(context.Background(), 15*time.Second)
		defer pcancel()
		defer func() {
			if r := recover(); r != nil {
				fmt.Println("probe panic", r)
			}
		}()
		if _, err := node.dmSrv.Insert(pctx, &pb.InsertRequest{DatasetId: targetDs.Bytes(), Id: rid(900 + tag).Bytes(), Value: amath.Vector{9, 9}}); err != nil {
			return "write-fails(" + err.Error() + ")"
		}
		srv := &fakeServerStream{ctx: pctx}
		if err := node.searchSrv.Search(&pb.SearchRequest{DatasetId: targetDs.Bytes(), Query: amath.Vector{9, 9}, K: 3}, srv); err != nil {
			return "search-fails(" + err.Error() + ")"
		}
		if len(srv.items) == 0 {
			return "search-empty"
		}
		return "ok"
	}
	fmt.Println("alive", probe(n, 1))
	os.Stdout.Sync()
	// restart over the same data directory: replay the catalogue log, the partitions replay their raft logs
	cl.cat.mu.Lock()
	log := append([][]byte{}, cl.cat.log...)
	cl.cat.mu.Unlock()
	cl.CloseDBs()
	cl2 := newSimClusterAt(1, dir)
	n2 := cl2.nodes[1]
	for _, e := range log {
		n2.group.inbox <- e
	}
	if !waitFor(10*time.Second, func() bool { return n2.group.Applied() >= len(log) }) {
		fmt.Println("restart catalogue-replay-stalls")
		os.Exit(6)
	}
	if ps := n2.group.Panics(); len(ps) > 0 {
		fmt.Println("restart catalogue-replay-panicked", ps[0])
		os.Exit(7)
	}
	cl2.injectClients(targetDs)
	// the single-replica groups re-elect themselves (10-20 ticks of 100 ms); a campaign speeds it up
	time.Sleep(300 * time.Millisecond)
	if dd := cl2.dataset(1, targetDs); dd != nil {
		for pi := 0; pi < dd.VerifPartitionCount(); pi++ {
			if r := dd.VerifPartitionAt(pi).Raft(); r != nil {
				r.VerifCampaign()
			}
		}
	}
	time.Sleep(300 * time.Millisecond)
	fmt.Println("restart", probe(n2, 2))
}
