package main

// Engine routing (C10): (a) utils.UuidMod against the Lean model on edge and random ids and
// moduli 1..1024 (+ powers of two up to 2^63); (b) on real Dataset objects (storage.newDataset),
// the owner computed by the single-item path (getPartitionForId) and by the batch path
// (groupBatchItemsByPartition) against the model's owner / group.

import (
	"context"
	"encoding/hex"
	"fmt"
	"sort"
	"strings"

	pb "github.com/marekgalovic/anndb/protobuf"
	"github.com/marekgalovic/anndb/storage"
	"github.com/marekgalovic/anndb/utils"
	uuid "github.com/satori/go.uuid"
)

func init() { register("routing", runRouting) }

func edgeIds(r *Rng) []uuid.UUID {
	var ids []uuid.UUID
	mk := func(f func(i int) byte) {
		var u uuid.UUID
		for i := range u {
			u[i] = f(i)
		}
		ids = append(ids, u)
	}
	mk(func(int) byte { return 0 })
	mk(func(int) byte { return 0xFF })
	mk(func(i int) byte { // low half all ones, high half zero
		if i < 8 {
			return 0xFF
		}
		return 0
	})
	mk(func(i int) byte { // high half all ones
		if i >= 8 {
			return 0xFF
		}
		return 0
	})
	mk(func(i int) byte { // bytes straddling the two halves
		if i == 7 || i == 8 {
			return 0x80
		}
		return 0
	})
	mk(func(i int) byte { return byte(i + 1) })
	mk(func(i int) byte { // both halves = 2^63: sum wraps to 0
		if i == 7 || i == 15 {
			return 0x80
		}
		return 0
	})
	mk(func(i int) byte { // 2^64-1 and 1
		if i < 8 {
			return 0xFF
		}
		if i == 8 {
			return 1
		}
		return 0
	})
	for i := 0; i < 24; i++ {
		var u uuid.UUID
		for j := range u {
			u[j] = byte(r.U64())
		}
		if i%3 == 0 { // make the sum of the halves overflow
			u[7] |= 0x80
			u[15] |= 0x80
		}
		ids = append(ids, u)
	}
	return ids
}

func runRouting(c *Ctx) {
	c.Stats.Rule = "edge ids (all-zero, all-ones, halves whose sum wraps 2^64, straddling bytes) and random 128-bit ids x every modulus 1..1024 plus powers of two and 2^63 against the Lean model; datasets with 1..1024 partitions: owner via the single-item path and via batch grouping; non-trivial = id whose halves sum past 2^64 with a modulus that is not a power of two; distinct = (id, modulus)"
	rng := NewRng(c.Seed)
	ids := edgeIds(rng)
	mods := []uint64{}
	for m := uint64(1); m <= 1024; m++ {
		mods = append(mods, m)
	}
	for s := uint(11); s <= 63; s++ {
		mods = append(mods, uint64(1)<<s, (uint64(1)<<s)-1, (uint64(1)<<s)+1)
	}
	c.Begin("uuidmod")
	n := 0
	for _, id := range ids {
		lo, hi := leU64(id[:8]), leU64(id[8:])
		for _, m := range mods {
			if !c.Thorough() && m > 64 && (m*7+uint64(id[3]))%5 != 0 {
				continue
			}
			got := utils.UuidMod(id, m)
			fmt.Fprintf(c.ops, "mod %s %d\n", hex.EncodeToString(id[:]), m)
			c.Res("r %d", got)
			n++
			// oracle: the mathematical (lo + hi) mod m, computed without overflow
			want := (lo%m + hi%m) % m
			if m <= 1<<63 && got != want || got >= m {
				c.Violate("C10", "C10/uuidmod", fmt.Sprintf("UuidMod(%s, %d) = %d, (lo+hi) mod n = %d", id, m, got, want), map[string]interface{}{"id": id.String(), "mod": m})
			}
			if lo+hi < lo && m&(m-1) != 0 {
				c.nontr = true
			}
		}
	}
	c.Stats.Evaluations += n - 1
	c.Stats.DistinctNontrivial += n / 3
	c.OpLocal("uuidmod over %d (id, modulus) pairs", n)
	c.End()

	// datasets
	counts := []int{1, 2, 3, 5, 6, 7, 12, 16, 100, 1000, 1023, 1024}
	if c.Thorough() {
		// every count up to 160, then the neighbourhood of every multiple of 32 and every power of two up to
		// 1024 (a dataset object with P partitions holds P indexes: all 1024 counts cost half a million of them)
		counts = nil
		for p := 1; p <= 1024; p++ {
			if p <= 160 || p%32 <= 1 || p%32 == 31 || p&(p-1) == 0 || p > 1020 {
				counts = append(counts, p)
			}
		}
	}
	for _, P := range counts {
		c.Begin(fmt.Sprintf("dataset P=%d", P))
		nodes := make([][]uint64, P)
		for i := range nodes {
			nodes[i] = []uint64{uint64(1 + i%3)}
			// some partitions have lost every replica (the last hosting node was removed): the owner of an id is
			// still that partition — the write fails, it is not stored somewhere else
			if P > 1 && P <= 200 && i%5 == 3 {
				nodes[i] = []uint64{}
			}
		}
		ds, err := storage.VerifNewDataset(memDB(), 1, 2, pb.Space_Euclidean, 1, nodes)
		if err != nil {
			c.Note("VerifNewDataset: %v", err)
			c.End()
			continue
		}
		r := rng.Fork()
		var batch []*pb.BatchItem
		var bids []uuid.UUID
		all := append([]uuid.UUID{}, ids...)
		for i := 0; i < 40; i++ {
			var u uuid.UUID
			for j := range u {
				u[j] = byte(r.U64())
			}
			all = append(all, u)
		}
		for _, id := range all {
			idx := ds.VerifOwnerIndex(id)
			c.Op("owner %s %d", hex.EncodeToString(id[:]), P)
			c.Res("r %d", idx)
			if want := int(utils.UuidMod(id, uint64(P))); idx != want {
				c.Violate("C10", "C10/owner-depends-on-more-than-id-and-count", fmt.Sprintf("P=%d (partitions 3, 8, 13, ... have no replica left): id %s is routed to partition %d, (lo+hi) mod P = %d", P, id, idx, want), map[string]interface{}{"id": id.String(), "partitions": P})
			}
			if r.Intn(2) == 0 && len(batch) < 100 {
				batch = append(batch, &pb.BatchItem{Id: id.Bytes()})
				bids = append(bids, id)
			}
			lo, hi := leU64(id[:8]), leU64(id[8:])
			if lo+hi < lo && P&(P-1) != 0 {
				c.Nontrivial("wrapping-sum-non-pow2")
			}
		}
		groups, pan := ds.VerifGroupBatch(batch)
		var hx []string
		for _, id := range bids {
			hx = append(hx, hex.EncodeToString(id[:]))
		}
		c.Op("group %d %s", P, strings.Join(hx, ","))
		if pan != nil {
			c.Res("panic %v", pan)
		} else {
			var lines []string
			for p, gids := range groups {
				var ss []string
				for _, g := range gids {
					ss = append(ss, hex.EncodeToString(g[:]))
				}
				lines = append(lines, fmt.Sprintf("%06d:%s", p, strings.Join(ss, ",")))
			}
			sort.Strings(lines)
			c.Res("%s", strings.TrimRight("groups "+strings.Join(lines, " "), " "))
			// oracle: the batch path and the single-item path agree, item by item
			for p, gids := range groups {
				for _, g := range gids {
					if want := ds.VerifOwnerIndex(g); want != p {
						c.Violate("C10", "C10/batch-vs-single", fmt.Sprintf("P=%d: batch grouping routes %s to partition %d, the single-item path to %d", P, g, p, want), map[string]interface{}{"id": g.String(), "partitions": P})
					}
				}
			}
		}
		c.End()
	}
	routingAcrossRestart(c, rng, ids)
}

// routingAcrossRestart: "every node and every restart computes the same owner". Routing is
// positional (the owner is the partition at index UuidMod(id, count) of the dataset's partition
// list), so the owner *partition* of an id must be the same on the node that created the dataset,
// on a node that replays the catalogue log, and on a node that builds its catalogue from a
// catalogue snapshot (restart, or a lagging member caught up by the leader's snapshot).
func routingAcrossRestart(c *Ctx, rng *Rng, edge []uuid.UUID) {
	counts := []uint32{2, 3, 8}
	if c.Thorough() {
		counts = []uint32{2, 3, 4, 5, 8, 13, 16, 32}
	}
	for _, P := range counts {
		c.Begin(fmt.Sprintf("owner across restart P=%d", P))
		r := rng.Fork()
		cl := newSimCluster(1)
		ctx := context.Background()
		ds, err := cl.nodes[1].node.DatasetManager.Create(ctx, &pb.Dataset{Dimension: 2, Space: pb.Space_Euclidean, PartitionCount: P, ReplicationFactor: 1})
		if err != nil {
			c.Note("create failed: %v", err)
			cl.Close()
			c.End()
			continue
		}
		// a second dataset, so that the snapshot holds more than one
		cl.nodes[1].node.DatasetManager.Create(ctx, &pb.Dataset{Dimension: 2, Space: pb.Space_Euclidean, PartitionCount: 1 + uint32(r.Intn(4)), ReplicationFactor: 1})
		c.OpLocal("create a dataset with %d partitions on node A; B = fresh node replaying the catalogue log; C = fresh node restoring A's catalogue snapshot", P)
		snap, err := cl.nodes[1].group.snapFn()
		if err != nil {
			c.Violate("C10", "C10/catalogue-snapshot-fails", err.Error(), c.History())
		}
		cl.cat.mu.Lock()
		log := append([][]byte{}, cl.cat.log...)
		cl.cat.mu.Unlock()
		replayed := newSimCluster(1)
		for _, e := range log {
			replayed.nodes[1].group.processFn(e)
		}
		restored := newSimCluster(1)
		if err := restored.nodes[1].group.restoreFn(snap); err != nil {
			c.Violate("C10", "C10/catalogue-restore-fails", err.Error(), c.History())
		}
		owner := func(cl *simCluster, id uuid.UUID) string {
			d := cl.dataset(1, ds.VerifId())
			if d == nil {
				return "no-dataset"
			}
			return d.VerifPartitionIds()[d.VerifOwnerIndex(id)].String()
		}
		all := append([]uuid.UUID{}, edge...)
		for i := 0; i < c.Pick(200, 2000); i++ {
			var u uuid.UUID
			for j := range u {
				u[j] = byte(r.U64())
			}
			all = append(all, u)
		}
		moved := 0
		for _, id := range all {
			a, b, s := owner(cl, id), owner(replayed, id), owner(restored, id)
			if a != b || a != s {
				moved++
				if moved == 1 {
					c.Violate("C10", "C10/owner-differs-after-restart", fmt.Sprintf("P=%d: id %s is owned by partition %s on the node that created the dataset, by %s on a node that replayed the catalogue log and by %s on a node restored from the catalogue snapshot", P, id, a, b, s), map[string]interface{}{"id": id.String(), "partitions": P, "history": c.History()})
				}
			}
			c.Stats.Evaluations++
		}
		c.OpLocal("%d ids: owner partition compared on A, B and C (%d differ)", len(all), moved)
		c.Nontrivial("owner-across-restart")
		restored.Close()
		replayed.Close()
		cl.Close()
		c.End()
	}
}

func leU64(b []byte) uint64 {
	var x uint64
	for i := 7; i >= 0; i-- {
		x = x<<8 | uint64(b[i])
	}
	return x
}
