package main

// Engine partition (C02, C04; feeds C03/C11/C12): random logs of the six PartitionChange kinds
// applied as marshalled entry bytes to stand-alone real partitions (storage.VerifPartition: the
// real index, notificator, process / snapshot / processSnapshot, no raft).
//
// Replica A applies every entry. Replica B restores A's snapshot at a cut point and applies the
// rest (every cut in turn, over repeated runs of the same log). Replica C is a fresh replica
// replaying the whole log at the end ("restart"). After every entry the outcome, Len, the raw
// byte counter and the full contents (id, vector, level, metadata) are written for the model
// driver, which runs the specification (finite map) and, in the exact regime, the graph model
// of partition.go on the same entries.

import (
	"context"
	"fmt"
	"math"
	"sort"
	"strings"

	"github.com/marekgalovic/anndb/index"
	amath "github.com/marekgalovic/anndb/math"
	pb "github.com/marekgalovic/anndb/protobuf"
	"github.com/marekgalovic/anndb/storage"
	uuid "github.com/satori/go.uuid"
)

func init() { register("partition", runPartition) }

type pItem struct {
	id, vec, lvl int
	md           string
}

type pOp struct {
	kind  string // ins upd del bins bupd bdel
	items []pItem
}

func (o pOp) line() string {
	var sb strings.Builder
	sb.WriteString(o.kind)
	for _, it := range o.items {
		switch o.kind {
		case "ins", "bins":
			fmt.Fprintf(&sb, " %d %d %d %s", it.id, it.vec, it.lvl, it.md)
		case "upd", "bupd":
			fmt.Fprintf(&sb, " %d %d %s", it.id, it.vec, it.md)
		default:
			fmt.Fprintf(&sb, " %d", it.id)
		}
	}
	return sb.String()
}

func mdToMap(s string) map[string]string {
	if s == "-" {
		return nil
	}
	return map[string]string(parseMd(s))
}

func (o pOp) change(vecs []amath.Vector) *pb.PartitionChange {
	c := &pb.PartitionChange{}
	single := func(t pb.PartitionChangeType) {
		it := o.items[0]
		c.Type = t
		c.Id = rid(it.id).Bytes()
		if t != pb.PartitionChangeType_PartitionChangeDeleteValue {
			c.Value = vecs[it.vec]
			c.Metadata = mdToMap(it.md)
		}
		c.Level = int32(it.lvl)
	}
	batch := func(t pb.PartitionChangeType) {
		c.Type = t
		for _, it := range o.items {
			bi := &pb.BatchItem{Id: rid(it.id).Bytes(), Level: int32(it.lvl)}
			if t != pb.PartitionChangeType_PartitionChangeBatchDeleteValue {
				bi.Value = vecs[it.vec]
				bi.Metadata = mdToMap(it.md)
			}
			c.BatchItems = append(c.BatchItems, bi)
		}
	}
	switch o.kind {
	case "ins":
		single(pb.PartitionChangeType_PartitionChangeInsertValue)
	case "upd":
		single(pb.PartitionChangeType_PartitionChangeUpdateValue)
	case "del":
		single(pb.PartitionChangeType_PartitionChangeDeleteValue)
	case "bins":
		batch(pb.PartitionChangeType_PartitionChangeBatchInsertValue)
	case "bupd":
		batch(pb.PartitionChangeType_PartitionChangeBatchUpdateValue)
	case "bdel":
		batch(pb.PartitionChangeType_PartitionChangeBatchDeleteValue)
	}
	return c
}

func errName(err interface{}) string {
	switch err {
	case nil:
		return "ok"
	case index.ItemAlreadyExistsError:
		return "exists"
	case index.ItemNotFoundError:
		return "notfound"
	}
	// (by its text, so that the harness also builds against a tree without this error value)
	if e, ok := err.(error); ok && e.Error() == "Metadata too large" {
		return "mdtoolarge"
	}
	return fmt.Sprintf("other(%v)", err)
}

// outcomeText renders what was notified for one entry.
func outcomeText(kind string, res interface{}, delivered bool, err error, panicked interface{}) string {
	if panicked != nil {
		return fmt.Sprintf("out panic(%v)", panicked)
	}
	if err != nil {
		return "out applyerr(" + err.Error() + ")"
	}
	if !delivered {
		return "out undelivered"
	}
	if strings.HasPrefix(kind, "b") {
		m, ok := storage.VerifBatchErrors(res)
		if !ok {
			return fmt.Sprintf("out badtype(%T)", res)
		}
		var ss []string
		for id, e := range m {
			ss = append(ss, fmt.Sprintf("%d:%s", idn(id), errName(e)))
		}
		sort.Slice(ss, func(i, j int) bool {
			var a, b int
			fmt.Sscan(ss[i], &a)
			fmt.Sscan(ss[j], &b)
			return a < b
		})
		return strings.TrimRight("errs "+strings.Join(ss, " "), " ")
	}
	return "out " + errName(res)
}

func contentsText(d index.VerifDump, vecIdx map[string]int) string {
	vs := append([]index.VerifVertex{}, d.Vertices...)
	sort.Slice(vs, func(i, j int) bool { return idn(vs[i].Id) < idn(vs[j].Id) })
	var ss []string
	for _, v := range vs {
		vi, ok := vecIdx[vecKey(v.Vector)]
		if !ok {
			vi = -1
		}
		ss = append(ss, fmt.Sprintf("%d:v%d:L%d:%s", idn(v.Id), vi, v.Level, mdString(v.Metadata)))
	}
	return strings.TrimRight("C "+strings.Join(ss, " "), " ")
}

// reference map (the Go-side oracle of C02)
type refMap struct {
	dim   int
	items map[int]refEntry
}
type refEntry struct {
	vec int
	md  map[string]string
}

func (r *refMap) bytes() uint64 {
	var n uint64
	for _, it := range r.items {
		n += 16 + 4*uint64(r.dim)
		for k, v := range it.md {
			n += uint64(len(k) + len(v))
		}
	}
	return n
}

func copyMd(m map[string]string) map[string]string {
	o := map[string]string{}
	for k, v := range m {
		o[k] = v
	}
	return o
}

// apply returns the expected outcome text
func (r *refMap) apply(o pOp) string {
	one := func(kind string, it pItem) string {
		_, had := r.items[it.id]
		switch kind {
		case "ins":
			if !mdFitsFormat(mdToMap(it.md)) {
				return "mdtoolarge"
			}
			if had {
				return "exists"
			}
			r.items[it.id] = refEntry{it.vec, copyMd(mdToMap(it.md))}
		case "upd":
			if !had {
				return "notfound"
			}
			md := copyMd(mdToMap(it.md))
			for k, v := range r.items[it.id].md {
				if _, ok := md[k]; !ok {
					md[k] = v
				}
			}
			if !mdFitsFormat(md) { // refused as a whole: the stored item is kept as it was
				return "mdtoolarge"
			}
			r.items[it.id] = refEntry{it.vec, md}
		case "del":
			if !had {
				return "notfound"
			}
			delete(r.items, it.id)
		}
		return "ok"
	}
	if !strings.HasPrefix(o.kind, "b") {
		return "out " + one(o.kind, o.items[0])
	}
	errs := map[int]string{}
	for _, it := range o.items {
		if e := one(o.kind[1:], it); e != "ok" {
			errs[it.id] = e
		}
	}
	ids := make([]int, 0, len(errs))
	for id := range errs {
		ids = append(ids, id)
	}
	sort.Ints(ids)
	var ss []string
	for _, id := range ids {
		ss = append(ss, fmt.Sprintf("%d:%s", id, errs[id]))
	}
	return strings.TrimRight("errs "+strings.Join(ss, " "), " ")
}

func (r *refMap) contents() string {
	ids := make([]int, 0, len(r.items))
	for id := range r.items {
		ids = append(ids, id)
	}
	sort.Ints(ids)
	var ss []string
	for _, id := range ids {
		ss = append(ss, fmt.Sprintf("%d:v%d:%s", id, r.items[id].vec, mdString(index.Metadata(r.items[id].md))))
	}
	return strings.Join(ss, " ")
}

func stripLevels(c string) string {
	// "C 1:v0:L2:md ..." -> "1:v0:md ..."
	fs := strings.Fields(c)
	var ss []string
	for _, f := range fs[1:] {
		p := strings.SplitN(f, ":", 4)
		ss = append(ss, p[0]+":"+p[1]+":"+p[3])
	}
	return strings.Join(ss, " ")
}

// mdFitsFormat: the snapshot format's length fields (the harness's own statement of the limits)
func mdFitsFormat(m map[string]string) bool {
	if len(m) > 65535 {
		return false
	}
	for k, v := range m {
		if len(k) > 255 || len(v) > 65535 {
			return false
		}
	}
	return true
}

func genPartitionLog(r *Rng, nOps, idUniverse, nvec int, maxLive int) []pOp {
	var ops []pOp
	mds := []string{"-", "-", "-", "a=1", "a=2", "a=1,b=x", "b=y", "k=v,z=w", "long=" + strings.Repeat("x", 1+r.Intn(40)),
		"-", "a=3,c=1", "b=q", "-", "a=", "b=,c=2", "a=,b=", "=emptykey", // empty values (and an empty key) are values like any other: an update with k="" sets k to ""
		strings.Repeat("K", 255) + "=fits", strings.Repeat("K", 256) + "=refused",
		// the format's limits are in bytes, not in characters: 127 Cyrillic letters are 254 bytes, 128 are 256
		strings.Repeat("\u043a", 127) + "=fits", strings.Repeat("\u043a", 128) + "=refused", "name=\u00e9t\u00e9,k=\u4e2d\u6587"}
	if r.Intn(6) == 0 { // now and then a value at / beyond the 16-bit length field
		mds = append(mds, "big="+strings.Repeat("v", 65535), "big="+strings.Repeat("v", 65536), "big="+strings.Repeat("\u00e9", 32768))
	}
	vi := 0
	nextVec := func() int { v := vi % nvec; vi++; return v }
	live := map[int]bool{}
	item := func() pItem {
		return pItem{id: r.Intn(idUniverse), vec: nextVec(), lvl: r.Intn(4), md: mds[r.Intn(len(mds))]}
	}
	for i := 0; i < nOps; i++ {
		k := r.Intn(100)
		switch {
		case k < 30:
			it := item()
			if len(live) >= maxLive {
				ops = append(ops, pOp{"del", []pItem{it}})
				delete(live, it.id)
			} else {
				ops = append(ops, pOp{"ins", []pItem{it}})
				live[it.id] = true
			}
		case k < 50:
			ops = append(ops, pOp{"upd", []pItem{item()}})
		case k < 65:
			it := item()
			ops = append(ops, pOp{"del", []pItem{it}})
			delete(live, it.id)
		default:
			n := 1 + r.Intn(5)
			var its []pItem
			for j := 0; j < n; j++ {
				it := item()
				if r.Intn(4) == 0 && len(its) > 0 { // duplicate id inside the batch
					it.id = its[r.Intn(len(its))].id
				}
				its = append(its, it)
			}
			switch {
			case k < 78 && len(live)+n <= maxLive:
				ops = append(ops, pOp{"bins", its})
				for _, it := range its {
					live[it.id] = true
				}
			case k < 90:
				ops = append(ops, pOp{"bupd", its})
			default:
				ops = append(ops, pOp{"bdel", its})
				for _, it := range its {
					delete(live, it.id)
				}
			}
		}
	}
	return ops
}

func runPartition(c *Ctx) {
	c.Stats.Rule = "random logs of the six PartitionChange kinds (small id universe: re-insert after remove, update of absent ids, duplicate ids in a batch, items with and without metadata) applied as marshalled entries to 3 stand-alone real partitions (full log / snapshot-restore at every cut / fresh replay); non-trivial = the log contains an update that merges metadata, a batch with a duplicate id, or a restore at a cut; distinct = distinct op sequence"
	rng := NewRng(c.Seed)
	nh := c.ArgInt("hist", c.Pick(120, 1500))
	maxOps := c.ArgInt("ops", c.Pick(40, 120))
	spaces := []pb.Space{pb.Space_Euclidean, pb.Space_Manhattan, pb.Space_Cosine}

	run := func(label string, r *Rng, ops []pOp, dim int, spi int, exact bool, vecs []amath.Vector) {
		sp, spName := newSpace(spi)
		vecIdx := map[string]int{}
		for i, v := range vecs {
			vecIdx[vecKey(v)] = i
		}
		c.Begin(label)
		c.Op("new %d", dim)
		c.Res("ok")
		if exact {
			var sb strings.Builder
			n := len(vecs)
			fmt.Fprintf(&sb, "dist %d", n)
			for i := 0; i < n; i++ {
				for j := 0; j < n; j++ {
					fmt.Fprintf(&sb, " %d", f32bits(sp.Distance(vecs[i], vecs[j])))
				}
			}
			c.OpQuiet(sb.String())
			c.Res("dist ok")
		}
		c.OpLocal("space=%s dim=%d exact=%v", spName, dim, exact)
		A := storage.VerifNewPartition(uint32(dim), spaces[spi%3])
		ref := &refMap{dim: dim, items: map[int]refEntry{}}
		var entries [][]byte
		var outcomesA []string
		var contentsA []string
		for _, o := range ops {
			c.Count("op:" + o.kind)
			ch := o.change(vecs)
			data, err := storage.VerifMarshalChange(ch, uuid.NewV4())
			if err != nil {
				c.Note("marshal failed: %v", err)
				continue
			}
			entries = append(entries, data)
			res, delivered, aerr, pan := A.ApplyEntry(data)
			out := outcomeText(o.kind, res, delivered, aerr, pan)
			d := A.Index().VerifDump()
			c.Op("%s", o.line())
			c.Res("%s", out)
			c.Res("st %d %d", d.Len, d.BytesSize)
			cont := contentsText(d, vecIdx)
			c.Res("%s", cont)
			if exact {
				hr := &hnswRun{c: c, vecIdx: vecIdx}
				c.Res("%s", hr.dumpText(d))
			}
			outcomesA = append(outcomesA, out)
			contentsA = append(contentsA, cont)
			// ---- oracle C02: reference map
			want := ref.apply(o)
			if want != out {
				sig := "C02/outcome"
				if strings.Contains(out, "panic") {
					sig = "C02/apply-panic"
				}
				c.Violate("C02", sig, fmt.Sprintf("entry %q notified %q, a sequential map reports %q", o.line(), out, want), c.History())
			}
			if stripLevels(cont) != ref.contents() {
				c.Violate("C02", "C02/contents", fmt.Sprintf("after %q the partition holds [%s], a sequential map holds [%s]", o.line(), stripLevels(cont), ref.contents()), c.History())
			}
			if int(d.Len) != len(ref.items) || A.Index().Len() != len(ref.items) {
				c.Violate("C02", "C02/len", fmt.Sprintf("Len=%d, live ids=%d", A.Index().Len(), len(ref.items)), c.History())
			}
			if d.BytesSize != ref.bytes() {
				c.Violate("C02", "C02/bytes", fmt.Sprintf("data byte counter=%d, live items' data=%d (wraps when negative)", d.BytesSize, ref.bytes()), c.History())
			}
			rep := A.Index().BytesSize()
			if rep < ref.bytes() || rep-ref.bytes() > uint64(len(ref.items))*100000 {
				c.Violate("C02", "C02/reported-size", fmt.Sprintf("reported size %d vs data bytes %d for %d items", rep, ref.bytes(), len(ref.items)), c.History())
			}
			// ---- oracle C01 at the partition layer: a search sees the current vectors and metadata
			if len(ref.items) > 0 {
				q := vecs[(len(entries)*7)%len(vecs)]
				k := 1 + len(entries)%5
				hits, serr := A.Index().Search(context.Background(), q, uint(k))
				if serr != nil || len(hits) == 0 {
					c.Violate("C01", "C01/empty-result", fmt.Sprintf("partition search returned %d items (err %v) on %d stored items", len(hits), serr, len(ref.items)), c.History())
				}
				seen := map[int]bool{}
				for i, x := range hits {
					it, ok := ref.items[idn(x.Id)]
					if !ok {
						c.Violate("C01", "C01/returns-removed", fmt.Sprintf("partition search returned id %d which is not stored", idn(x.Id)), c.History())
						continue
					}
					if mdString(index.Metadata(it.md)) != mdString(x.Metadata) {
						c.Violate("C01", "C01/metadata", fmt.Sprintf("partition search returned id %d with metadata %s, current metadata is %s", idn(x.Id), mdString(x.Metadata), mdString(index.Metadata(it.md))), c.History())
					}
					if f32bits(sp.Distance(q, vecs[it.vec])) != f32bits(x.Score) {
						c.Violate("C01", "C01/score", fmt.Sprintf("partition search returned id %d with a score that is not the distance to its current vector", idn(x.Id)), c.History())
					}
					if seen[idn(x.Id)] || (i > 0 && hits[i-1].Score > x.Score) || len(hits) > k {
						c.Violate("C01", "C01/unsorted", "partition search result has a duplicate, is unsorted or longer than k", c.History())
					}
					seen[idn(x.Id)] = true
				}
			}
			if o.kind == "upd" || o.kind == "bupd" {
				for _, it := range o.items {
					if it.md != "-" {
						c.Nontrivial("update-merges-metadata")
						break
					}
				}
			}
			if strings.HasPrefix(o.kind, "b") {
				seen := map[int]bool{}
				for _, it := range o.items {
					if seen[it.id] {
						c.Nontrivial("batch-duplicate-id")
					}
					seen[it.id] = true
				}
			}
		}
		// ---- C04: snapshot at cut(s) + fresh replay
		cuts := []int{}
		if c.Thorough() || len(entries) <= 12 {
			for i := 0; i <= len(entries); i++ {
				cuts = append(cuts, i)
			}
		} else {
			for i := 0; i < 4; i++ {
				cuts = append(cuts, r.Intn(len(entries)+1))
			}
			cuts = append(cuts, 0, len(entries))
		}
		// snapshots of A at every prefix are obtained by replaying on a scratch replica
		S := storage.VerifNewPartition(uint32(dim), spaces[spi%3])
		snaps := make([][]byte, len(entries)+1)
		for i := 0; i <= len(entries); i++ {
			b, err := S.Snapshot()
			if err != nil {
				c.Violate("C04", "C04/snapshot-error", err.Error(), c.History())
			}
			snaps[i] = append([]byte{}, b...)
			if i < len(entries) {
				S.ApplyEntry(entries[i])
			}
		}
		for _, cut := range cuts {
			c.Count("c04:cut")
			c.Nontrivial("restore-at-cut")
			// B: a used replica (holds unrelated items) that installs the snapshot, then applies the rest
			B := storage.VerifNewPartition(uint32(dim), spaces[spi%3])
			if cut%2 == 1 && len(entries) > 0 { // used target: holds a different prefix
				for i := 0; i < len(entries) && i < cut/2+1; i++ {
					B.ApplyEntry(entries[len(entries)-1-i])
				}
			}
			if err, pan := B.Restore(snaps[cut]); err != nil || pan != nil {
				c.Violate("C04", "C04/restore-fails", fmt.Sprintf("restoring the snapshot taken after %d entries failed: %v %v", cut, err, pan), c.History())
				continue
			}
			for i := cut; i < len(entries); i++ {
				res, delivered, aerr, pan := B.ApplyEntry(entries[i])
				out := outcomeText(ops[i].kind, res, delivered, aerr, pan)
				if out != outcomesA[i] {
					c.Violate("C04", "C04/outcome-differs", fmt.Sprintf("entry %d (%s): replica restored at cut %d notified %q, the replica that applied everything %q", i, ops[i].line(), cut, out, outcomesA[i]), c.History())
				}
				if got := stripLevels(contentsText(B.Index().VerifDump(), vecIdx)); got != stripLevels(contentsA[i]) {
					c.Violate("C04", "C04/contents-differ", fmt.Sprintf("after entry %d: replica restored at cut %d holds [%s], full replica [%s]", i, cut, got, stripLevels(contentsA[i])), c.History())
					break
				}
			}
			if cut == len(entries) && len(entries) > 0 {
				if got := stripLevels(contentsText(B.Index().VerifDump(), vecIdx)); got != stripLevels(contentsA[len(entries)-1]) {
					c.Violate("C04", "C04/contents-differ", fmt.Sprintf("replica restored from the final snapshot holds [%s], full replica [%s]", got, stripLevels(contentsA[len(entries)-1])), c.History())
				}
			}
			dB := B.Index().VerifDump()
			dA := A.Index().VerifDump()
			if dB.Len != dA.Len || dB.BytesSize != dA.BytesSize {
				c.Violate("C04", "C04/counters-differ", fmt.Sprintf("replica restored at cut %d: len/bytes %d/%d vs %d/%d", cut, dB.Len, dB.BytesSize, dA.Len, dA.BytesSize), c.History())
			}
		}
		c.End()
	}

	// corpus: D7 (update without metadata of an item with metadata), D2 (snapshot while empty)
	{
		vecs := []amath.Vector{{1, 2}, {3, 4}, {5, 6}, {7, 9}}
		run("corpus-D7", rng.Fork(), []pOp{{"ins", []pItem{{1, 0, 0, "a=1"}}}, {"upd", []pItem{{1, 1, 0, "-"}}}, {"bupd", []pItem{{1, 2, 0, "-"}, {2, 3, 0, "-"}}}}, 2, 0, true, vecs)
		run("corpus-D2", rng.Fork(), []pOp{{"ins", []pItem{{1, 0, 0, "-"}}}, {"del", []pItem{{1, 0, 0, "-"}}}, {"ins", []pItem{{2, 1, 1, "k=v"}}}}, 2, 0, true, vecs)
		// D5 at the partition layer: metadata at / beyond the snapshot format's length fields; an update
		// is refused when the *merged* metadata has one entry too many, and the item stays as it was
		var many []string
		for i := 0; i < 65535; i++ {
			many = append(many, fmt.Sprintf("k%d=", i))
		}
		full := strings.Join(many, ",")
		run("corpus-D5", rng.Fork(), []pOp{
			{"ins", []pItem{{1, 0, 0, strings.Repeat("K", 256) + "=v"}}},
			{"ins", []pItem{{1, 0, 0, full}}},
			{"upd", []pItem{{1, 1, 0, "one-more=x"}}},
			{"upd", []pItem{{1, 2, 0, "k7=changed"}}},
			{"bupd", []pItem{{1, 3, 0, "another=y"}, {1, 3, 0, "k8=z"}}},
			{"bins", []pItem{{2, 1, 0, "v=" + strings.Repeat("x", 65536)}, {3, 2, 1, "v=" + strings.Repeat("x", 65535)}}},
		}, 2, 0, true, vecs)
	}
	for h := 0; h < nh; h++ {
		r := rng.Fork()
		dim := 1 + r.Intn(4)
		spi := r.Intn(3)
		exact := r.Intn(2) == 0
		nOps := 5 + r.Intn(maxOps)
		if exact {
			nOps = 4 + r.Intn(18)
		}
		nvec := nOps*5 + 5
		vecs := genVectors(r, nvec, dim, false)
		sp, _ := newSpace(spi)
		if exact {
			ok := true
			seen := map[uint32]bool{}
			for i := range vecs {
				for j := i + 1; j < len(vecs) && ok; j++ {
					d := sp.Distance(vecs[i], vecs[j])
					b := math.Float32bits(d)
					if d != d || d < 0 || seen[b] {
						ok = false
					}
					seen[b] = true
				}
			}
			if !ok || nvec > 120 {
				exact = false
			}
		}
		maxLive := 40
		if exact {
			maxLive = 18 // default ef = 20: the collection stays inside the beams
		}
		ops := genPartitionLog(r, nOps, 4+r.Intn(16), nvec, maxLive)
		label := "wide"
		if exact {
			label = "exact"
		}
		run(label, r, ops, dim, spi, exact, vecs)
	}
}
