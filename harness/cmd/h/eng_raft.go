package main

// Engine raft (C05): groups of 1-5 real RaftGroups over real Badger log stores under random
// schedules of proposals, link faults (drop, duplicate, delay/reorder), partitions and heals,
// crash-restarts at durable-write boundaries (before / after the k-th write) and at arbitrary
// instants, and forced snapshot+compaction. Oracles, all evaluated on the real objects:
//
//   - every entry a replica applies (or restores from a snapshot) is compared position by position
//     with what every other replica and every earlier incarnation applied; positions are applied
//     in order, nothing twice, nothing that was never proposed;
//   - every message leaving a replica is compared with what that replica's log store holds at
//     that instant (term, vote, last index): the attestation rule of Model/RaftLoop.lean, which
//     the Lean driver evaluates on the same observations;
//   - a restarted replica's term / commit / committed prefix are no older than what it had made
//     durable, and it neither panics nor re-bootstraps;
//   - after the faults stop, all replicas converge on one log containing a fresh marker.

import (
	"context"
	"sync"
	"fmt"
	"os"
	"strconv"
	"strings"
	"time"

	"github.com/coreos/etcd/raft/raftpb"
	pb "github.com/marekgalovic/anndb/protobuf"
	"github.com/marekgalovic/anndb/storage/wal"
	uuid "github.com/satori/go.uuid"
)

func init() {
	register("raft", runRaft)
	childHandlers["raft"] = childRaft
}

func runRaft(c *Ctx) {
	c.Stats.Rule = "random fault schedules on groups of 1-5 real raft replicas (child process per batch); a trial = one schedule of ~20-60 actions (proposal bursts, fault mix changes, partitions, crash before/after the k-th durable write, kill, restart, forced snapshot) followed by heal + convergence; non-trivial = the trial had at least one crash-restart and one message fault; distinct = distinct action sequence"
	trials := c.ArgInt("trials", c.Pick(10, 120))
	batch := 5
	for b := 0; b*batch < trials; b++ {
		n := batch
		if trials-b*batch < n {
			n = trials - b*batch
		}
		as := c.Args["as"]
		if as == "" {
			as = "C05"
		}
		streamChild(c, time.Duration(60+n*60)*time.Second, as, "raft", fmt.Sprint(c.Seed*1000+uint64(b)), fmt.Sprint(n), c.Tier, as)
	}
}

// attested: the rule a message must satisfy against the sender's durable state when it leaves.
func attested(m *raftpb.Message, hs raftpb.HardState, last uint64, self uint64) bool {
	if m.Term != 0 && m.Term > hs.Term {
		return false
	}
	switch m.Type {
	case raftpb.MsgVote:
		return hs.Term > m.Term || hs.Vote == self
	case raftpb.MsgVoteResp:
		return m.Reject || hs.Term > m.Term || hs.Vote == m.To
	case raftpb.MsgAppResp:
		return m.Reject || m.Index <= last
	}
	return true
}

// raftAs: the property the run reports under. C05 is the engine's own; under C03 only what C03
// rests on is reported: an append acknowledgement that leaves a replica before the entries are in
// its log store lets the leader commit, and the client be answered, on a quorum that does not
// durably hold the write.
var raftAs = "C05"

func childRaft(args []string) {
	seed, _ := strconv.ParseUint(args[0], 10, 64)
	trials, _ := strconv.Atoi(args[1])
	thorough := len(args) > 2 && args[2] == "thorough"
	rng := NewRng(seed)
	out := cout
	if len(args) > 3 {
		raftAs = args[3]
	}
	raftCorpusVoteBeforeAppend(out)
	raftCorpusTwoCandidatesOneTerm(out)
	raftCorpusDeposedLeaderLearnsByAppend(out)
	if raftAs == "C05" {
		raftCorpusLostSnapshot(out)
	}
	for t := 0; t < trials; t++ {
		raftTrial(out, rng.Fork(), t, thorough)
	}
	out.Done()
	os.Exit(0)
}


// walView lists what a log store answers: first index, last index, and the term of every index in
// between (plus the hard state). A replica that restarts opens a fresh store over the same database;
// that store must answer exactly what the stopped one did, or the replica resumes from a log it
// never made durable (a resurrected tail forks history).
func walView(w wal.WAL) string {
	fi, e1 := w.FirstIndex()
	li, e2 := w.LastIndex()
	hs, _, e3 := w.InitialState()
	if e1 != nil || e2 != nil || e3 != nil {
		return fmt.Sprintf("error first=%v last=%v hs=%v", e1, e2, e3)
	}
	var sb strings.Builder
	fmt.Fprintf(&sb, "first=%d last=%d term=%d vote=%d commit=%d terms:", fi, li, hs.Term, hs.Vote, hs.Commit)
	for i := fi - 1; i <= li && li-i < 100000; i++ {
		t, err := w.Term(i)
		if err != nil {
			fmt.Fprintf(&sb, " %d:err(%v)", i, err)
		} else {
			fmt.Fprintf(&sb, " %d:%d", i, t)
		}
	}
	return sb.String()
}

// reopenMustAgree compares the stopped incarnation's store with a fresh instance over the same database
func reopenMustAgree(out *childOut, prop string, id uint64, old *rsNode, gid uuid.UUID) {
	old.ctl.waitQuiet()
	warm := walView(old.w.inner)
	cold := walView(wal.NewBadgerWAL(old.db, gid))
	if warm != cold {
		out.Violate(prop, prop+"/restart-log-differs", fmt.Sprintf("node %d: the log store a restart opens over the replica's database does not answer what the stopped replica's store answered (the replica resumes from a log it never had: forked history / lost entries). stopped: %s | reopened: %s", id, clip(warm, 600), clip(cold, 600)))
	}
}


func raftTrial(out *childOut, r *Rng, t int, thorough bool) {
	N := 1 + r.Intn(5)
	out.Begin(fmt.Sprintf("raft N=%d", N))
	defer out.End()
	c := newRsCluster(uuid.NewV4(), false, r.Fork())
	c.viol = func(p, s, w string) { out.Violate(p, s, w) }
	seenMsg := map[string]bool{}
	c.msgObs = func(from *rsNode, m *raftpb.Message) {
		hs, err1 := from.w.peekHardState()
		last, err2 := from.w.inner.LastIndex()
		if err1 != nil || err2 != nil {
			return
		}
		rej := 0
		if m.Reject {
			rej = 1
		}
		line := fmt.Sprintf("msg %s %d %d %d %d %d %d %d %d", m.Type.String(), m.Term, m.Index, rej, m.To, from.id, hs.Term, hs.Vote, last)
		ok := attested(m, hs, last, from.id)
		c.mu.Lock()
		first := !seenMsg[line]
		seenMsg[line] = true
		c.mu.Unlock()
		if first && (m.Type != raftpb.MsgHeartbeat && m.Type != raftpb.MsgHeartbeatResp || !ok) {
			out.Op("%s", line)
			if ok {
				out.Res("attested")
			} else {
				out.Res("premature")
			}
		}
		if !ok && raftAs == "C03" {
			if m.Type == raftpb.MsgAppResp {
				out.Violate("C03", "C03/append-acknowledged-before-durable", fmt.Sprintf("node %d acknowledged the append up to index %d (term %d) to leader %d while its log store held last index %d: the leader may commit and acknowledge a write that a crash of this replica loses", from.id, m.Index, m.Term, m.To, last))
			}
		} else if !ok {
			out.Violate("C05", "C05/message-before-durable/"+m.Type.String(), fmt.Sprintf("node %d sent %s(term %d, index %d, reject %v) to %d while its log store held term %d, vote %d, last index %d", from.id, m.Type, m.Term, m.Index, m.Reject, m.To, hs.Term, hs.Vote, last))
		}
	}
	var peers []uint64
	for i := 1; i <= N; i++ {
		peers = append(peers, uint64(i))
	}
	for _, id := range peers {
		if _, err := c.start(id, peers, fmt.Sprintf("node-%d", id)); err != nil {
			out.Violate("C05", "C05/start-fails", err.Error())
			return
		}
	}
	c.node(1).g.VerifCampaign()
	lastCampaign := time.Now()
	if !waitFor(40*time.Second, func() bool {
		if c.leader() != nil {
			return true
		}
		if time.Since(lastCampaign) > 3*time.Second { // a lost first round is retried by raft's own timer; nudge it
			lastCampaign = time.Now()
			c.node(1).g.VerifCampaign()
		}
		return false
	}) {
		out.Violate("C05", "C05/no-leader", fmt.Sprintf("a fresh group of %d replicas elected no leader within 40 s", N))
		c.teardown()
		return
	}
	seq := 0
	proposed := map[string]bool{}
	propose := func(n *rsNode, pl string) {
		ctx, cancel := context.WithTimeout(context.Background(), 100*time.Millisecond)
		defer cancel()
		proposed[pl] = true
		n.g.Propose(ctx, []byte(pl))
	}
	crashes, faults, restarts := 0, 0, 0
	type deadInfo struct {
		hs         raftpb.HardState
		commitTerm uint64
		haveCT     bool
	}
	restart := func(id uint64) {
		old := c.node(id)
		if old == nil || !old.ctl.isDead() {
			return
		}
		hs, _ := old.w.peekHardState()
		ct, cterr := old.w.inner.Term(hs.Commit)
		old.stopIncarnation()
		reopenMustAgree(out, raftAs, id, old, c.gid)
		n, err := c.start(id, peers, old.addr)
		if err != nil {
			out.Violate("C05", "C05/restart-fails", fmt.Sprintf("restart of node %d failed: %v", id, err))
			return
		}
		restarts++
		time.Sleep(15 * time.Millisecond)
		st := n.g.VerifStatus()
		out.Local("restart %d: durable term=%d vote=%d commit=%d -> resumed term=%d commit=%d", id, hs.Term, hs.Vote, hs.Commit, st.Term, st.Commit)
		if st.Term < hs.Term || st.Commit < hs.Commit {
			out.Violate("C05", "C05/restart-older-than-durable", fmt.Sprintf("node %d had made term %d / commit %d durable and resumed at term %d / commit %d", id, hs.Term, hs.Commit, st.Term, st.Commit))
		}
		if hs.Term == st.Term && hs.Vote != 0 && st.Vote != hs.Vote {
			out.Violate("C05", "C05/restart-forgets-vote", fmt.Sprintf("node %d had durably voted for %d in term %d and resumed with vote %d", id, hs.Vote, hs.Term, st.Vote))
		}
		if cterr == nil {
			if ct2, err := n.w.inner.Term(hs.Commit); err == nil && ct2 != ct {
				out.Violate("C05", "C05/restart-forks-committed", fmt.Sprintf("node %d: committed index %d had term %d before the crash and %d after the restart", id, hs.Commit, ct, ct2))
			}
		}
	}
	steps := 20 + r.Intn(40)
	if thorough {
		steps += r.Intn(60)
	}
	for s := 0; s < steps; s++ {
		live := c.live()
		switch k := r.Intn(100); {
		case k < 8 && len(live) > 1:
			// a replica that does not lead starts an election: the leader has to step down
			n := live[r.Intn(len(live))]
			if l := c.leader(); l != nil && l.id == n.id {
				n = live[(r.Intn(len(live)-1)+1+indexOfNode(live, n))%len(live)]
			}
			n.g.VerifCampaign()
			out.Local("campaign node %d", n.id)
		case k < 45 && len(live) > 0:
			n := live[r.Intn(len(live))]
			b := 1 + r.Intn(4)
			for i := 0; i < b; i++ {
				seq++
				pl := fmt.Sprintf("t%d-p%d", t, seq)
				if seq%5 == 3 {
					// a large entry among small ones: a follower that catches up from the leader's stored log
					// is sent size-limited reads (MaxSizePerMsg 4096) that must stop at it, not step over it
					pl += "-" + strings.Repeat("x", 3300)
				}
				propose(n, pl)
			}
			out.Local("propose x%d via %d", b, n.id)
		case k < 55:
			f := linkFault{drop: r.Float() * 0.3, dup: r.Float() * 0.3, delay: r.Float() * 0.3}
			if r.Intn(3) == 0 {
				f = linkFault{}
			}
			c.setFault(f)
			faults++
			out.Local("faults drop=%.2f dup=%.2f delay=%.2f", f.drop, f.dup, f.delay)
		case k < 62:
			if r.Intn(2) == 0 {
				side := map[uint64]bool{}
				for _, id := range peers {
					side[id] = r.Intn(2) == 0
				}
				c.partition(side)
				faults++
				out.Local("partition %v", side)
			} else {
				c.mu.Lock()
				c.blocked = map[[2]uint64]bool{}
				c.mu.Unlock()
				out.Local("heal partition")
			}
		case k < 76 && len(live) > 0:
			n := live[r.Intn(len(live))]
			at, before := 1+r.Intn(3), r.Intn(2) == 0
			n.ctl.arm(at, before)
			crashes++
			out.Local("arm crash node %d at write +%d before=%v", n.id, at, before)
		case k < 80 && len(live) > 0:
			n := live[r.Intn(len(live))]
			n.ctl.kill()
			crashes++
			out.Local("kill node %d", n.id)
		case k < 92:
			var dead []uint64
			for _, id := range peers {
				if n := c.node(id); n != nil && n.ctl.isDead() {
					dead = append(dead, id)
				}
			}
			if len(dead) > 0 {
				restart(dead[r.Intn(len(dead))])
			}
		case len(live) > 0:
			n := live[r.Intn(len(live))]
			done := make(chan error, 1)
			go func() { done <- n.g.VerifSnapshotNow() }()
			select {
			case err := <-done:
				out.Local("snapshot node %d: %v", n.id, err)
			case <-time.After(200 * time.Millisecond):
				out.Local("snapshot node %d: pending", n.id)
			}
		}
		time.Sleep(time.Duration(3+r.Intn(25)) * time.Millisecond)
	}
	// ---- faults stop
	c.heal()
	for _, id := range peers {
		c.mu.Lock()
		n := c.cur[id]
		if n != nil {
			n.ctl.mu.Lock()
			n.ctl.crashAt = 0
			n.ctl.mu.Unlock()
		}
		c.mu.Unlock()
		restart(id)
	}
	marker := fmt.Sprintf("t%d-marker", t)
	proposed[marker] = true
	converged := waitFor(40*time.Second, func() bool {
		if l := c.leader(); l != nil {
			// proposals can be dropped while leadership settles: re-propose under a fresh payload name
			seq++
			pl := fmt.Sprintf("%s-%d", marker, seq)
			proposed[pl] = true
			ctx, cancel := context.WithTimeout(context.Background(), 50*time.Millisecond)
			l.g.Propose(ctx, []byte(pl))
			cancel()
		}
		time.Sleep(60 * time.Millisecond)
		live := c.live()
		if len(live) != N {
			return false
		}
		ref := live[0].appliedCopy()
		hasMarker := false
		for _, pl := range ref {
			if strings.HasPrefix(pl, marker) {
				hasMarker = true
			}
		}
		if !hasMarker {
			return false
		}
		// all replicas hold the same log up to the shortest, and everybody has a marker
		for _, n := range live[1:] {
			a := n.appliedCopy()
			if !isPrefix(a, ref) && !isPrefix(ref, a) {
				return false
			}
			ok := false
			for _, pl := range a {
				if strings.HasPrefix(pl, marker) {
					ok = true
				}
			}
			if !ok {
				return false
			}
		}
		return true
	})
	if !converged {
		var st []string
		for _, n := range c.live() {
			s := n.g.VerifStatus()
			hs, _ := n.w.peekHardState()
			li, _ := n.w.inner.LastIndex()
			fi, _ := n.w.inner.FirstIndex()
			lt, _ := n.w.inner.Term(li)
			sn, _ := n.w.inner.Snapshot()
			st = append(st, fmt.Sprintf("node %d: term %d vote %d lead %d commit %d state %s applied %d entries; store: term %d vote %d commit %d first %d last %d lastTerm %d snapshot@%d conf %v", n.id, s.Term, s.Vote, s.Lead, s.Commit, s.RaftState, len(n.appliedCopy()), hs.Term, hs.Vote, hs.Commit, fi, li, lt, sn.Metadata.Index, sn.Metadata.ConfState.Nodes))
		}
		out.Violate("C05", "C05/no-convergence", fmt.Sprintf("40 s after all faults stopped and all replicas were restarted the group of %d has not converged: %s", N, strings.Join(st, "; ")))
	}
	c.mu.Lock()
	for _, pl := range c.canon {
		if !proposed[pl] {
			out.Violate("C05", "C05/applied-unproposed", fmt.Sprintf("payload %q was applied and never proposed", pl))
		}
	}
	for k, v := range c.counts {
		for i := 0; i < 1 && v > 0; i++ {
			out.Count(k)
		}
	}
	c.mu.Unlock()
	out.Local("crashes=%d restarts=%d fault-changes=%d applied=%d", crashes, restarts, faults, len(c.canon))
	if crashes > 0 && restarts > 0 && faults > 0 {
		out.Nontrivial("crash-restart+faults")
	}
	c.teardown()
}

func indexOfNode(l []*rsNode, n *rsNode) int {
	for i, x := range l {
		if x == n {
			return i
		}
	}
	return 0
}

// corpus: a replica added to an existing group (started without peers on an empty log store)
// grants a vote before any entry or snapshot reaches its store, crashes, and is reloaded with the
// group's member list (partition.loadRaft(partition.nodeIds())). Its store holds a hard state and
// nothing else: it must resume from that term and vote.
func raftCorpusVoteBeforeAppend(out *childOut) {
	out.Begin("corpus vote-before-first-append")
	defer out.End()
	c := newRsCluster(uuid.NewV4(), false, NewRng(7))
	c.viol = func(p, s, w string) { out.Violate(p, s, w) }
	n, err := c.start(1, nil, "node-1")
	if err != nil {
		out.Violate("C05", "C05/start-fails", err.Error())
		return
	}
	vote := raftpb.Message{Type: raftpb.MsgVote, From: 2, To: 1, Term: 5, Index: 0, LogTerm: 0}
	data, _ := vote.Marshal()
	n.tr.Receive(context.Background(), &pb.RaftMessage{GroupId: c.gid.Bytes(), Message: data})
	ok := waitFor(3*time.Second, func() bool {
		hs, _ := n.w.peekHardState()
		return hs.Term == 5 && hs.Vote == 2
	})
	out.Local("joiner 1 receives MsgVote(term 5) from 2; vote durable: %v", ok)
	if !ok {
		c.teardown()
		return
	}
	n.ctl.kill()
	n.stopIncarnation()
	n2, err := c.start(1, []uint64{1, 2, 3}, "node-1")
	if err != nil {
		out.Violate("C05", "C05/restart-fails", err.Error())
		return
	}
	time.Sleep(50 * time.Millisecond)
	st := n2.g.VerifStatus()
	li, _ := n2.w.inner.LastIndex()
	out.Local("reloaded with peers [1 2 3]: term %d vote %d last index %d", st.Term, st.Vote, li)
	if st.Term < 5 || st.Vote != 2 {
		out.Violate("C05", "C05/restart-older-than-durable", fmt.Sprintf("a replica whose log store held only the hard state (term 5, vote 2) was reloaded with its group's member list and resumed at term %d, vote %d, last index %d: it re-bootstrapped", st.Term, st.Vote, li))
	}
	out.Nontrivial("vote-before-first-append")
	c.teardown()
}

// corpus: two candidates in one term. The replica first hears a candidate whose log is behind its
// own (it adopts the term and rejects), then a second candidate of the same term with an up-to-date
// log (it grants). The hard state changes twice: term, then vote within the same term. The grant
// must not leave before the vote is in the log store, and a restart must remember the vote.
func raftCorpusTwoCandidatesOneTerm(out *childOut) {
	out.Begin("corpus two candidates in one term")
	defer out.End()
	c := newRsCluster(uuid.NewV4(), false, NewRng(11))
	c.viol = func(p, s, w string) { out.Violate(p, s, w) }
	var grants []string
	c.msgObs = func(from *rsNode, m *raftpb.Message) {
		hs, _ := from.w.peekHardState()
		last, _ := from.w.inner.LastIndex()
		if m.Type == raftpb.MsgVoteResp {
			grants = append(grants, fmt.Sprintf("to %d reject=%v at store term=%d vote=%d", m.To, m.Reject, hs.Term, hs.Vote))
		}
		rej := 0
		if m.Reject {
			rej = 1
		}
		out.Op("msg %s %d %d %d %d %d %d %d %d", m.Type.String(), m.Term, m.Index, rej, m.To, from.id, hs.Term, hs.Vote, last)
		if attested(m, hs, last, from.id) {
			out.Res("attested")
		} else {
			out.Res("premature")
			out.Violate("C05", "C05/message-before-durable/"+m.Type.String(), fmt.Sprintf("node %d sent %s(term %d, reject %v) to %d while its log store held term %d, vote %d", from.id, m.Type, m.Term, m.Reject, m.To, hs.Term, hs.Vote))
		}
	}
	n, err := c.start(1, []uint64{1, 2, 3}, "node-1")
	if err != nil {
		out.Violate("C05", "C05/start-fails", err.Error())
		return
	}
	// the bootstrap entries (three membership changes) reach the store
	waitFor(3*time.Second, func() bool { li, _ := n.w.inner.LastIndex(); return li >= 3 })
	send := func(m raftpb.Message) {
		data, _ := m.Marshal()
		n.tr.Receive(context.Background(), &pb.RaftMessage{GroupId: c.gid.Bytes(), Message: data})
	}
	send(raftpb.Message{Type: raftpb.MsgVote, From: 2, To: 1, Term: 7, Index: 0, LogTerm: 0}) // behind: rejected, term adopted
	waitFor(3*time.Second, func() bool { hs, _ := n.w.peekHardState(); return hs.Term == 7 })
	li, _ := n.w.inner.LastIndex()
	lt, _ := n.w.inner.Term(li)
	send(raftpb.Message{Type: raftpb.MsgVote, From: 3, To: 1, Term: 7, Index: li, LogTerm: lt}) // up to date: granted
	ok := waitFor(3*time.Second, func() bool { return len(grants) >= 2 })
	time.Sleep(50 * time.Millisecond)
	out.Local("vote responses: %v", grants)
	hs, _ := n.w.peekHardState()
	if ok && (hs.Term != 7 || hs.Vote != 3) {
		out.Violate("C05", "C05/vote-not-durable", fmt.Sprintf("the replica granted its vote to 3 in term 7; its log store holds term %d, vote %d", hs.Term, hs.Vote))
	}
	n.ctl.kill()
	n.stopIncarnation()
	n2, err := c.start(1, []uint64{1, 2, 3}, "node-1")
	if err == nil {
		time.Sleep(50 * time.Millisecond)
		st := n2.g.VerifStatus()
		if ok && (st.Term < 7 || (st.Term == 7 && st.Vote != 3)) {
			out.Violate("C05", "C05/restart-forgets-vote", fmt.Sprintf("after granting its vote to 3 in term 7 and restarting, the replica is at term %d with vote %d: it can vote a second time in the same term", st.Term, st.Vote))
		}
	}
	out.Nontrivial("two-candidates-one-term")
	c.teardown()
}

// corpus: a deposed leader learns of its successor by an append. The replica is leader of term T;
// the first thing it hears of term T+1 is the new leader's append, so one Ready carries the soft
// state change (leader -> follower), the new hard state, the appended entry and the
// acknowledgement. The loop must decide "send before save" by the role *after* that Ready: a
// follower's acknowledgement leaves only once the entry is in the log store.
func raftCorpusDeposedLeaderLearnsByAppend(out *childOut) {
	out.Begin("corpus deposed leader learns of its successor by an append")
	defer out.End()
	c := newRsCluster(uuid.NewV4(), false, NewRng(13))
	c.viol = func(p, s, w string) { out.Violate(p, s, w) }
	var mu sync.Mutex
	var acks []string
	c.msgObs = func(from *rsNode, m *raftpb.Message) {
		hs, err1 := from.w.peekHardState()
		last, err2 := from.w.inner.LastIndex()
		if err1 != nil || err2 != nil {
			return
		}
		rej := 0
		if m.Reject {
			rej = 1
		}
		ok := attested(m, hs, last, from.id)
		if m.Type == raftpb.MsgHeartbeat || m.Type == raftpb.MsgHeartbeatResp {
			if ok {
				return
			}
		}
		mu.Lock()
		defer mu.Unlock()
		out.Op("msg %s %d %d %d %d %d %d %d %d", m.Type.String(), m.Term, m.Index, rej, m.To, from.id, hs.Term, hs.Vote, last)
		if ok {
			out.Res("attested")
		} else {
			out.Res("premature")
		}
		if m.Type == raftpb.MsgAppResp {
			acks = append(acks, fmt.Sprintf("to %d term %d index %d reject=%v at store last=%d", m.To, m.Term, m.Index, m.Reject, last))
		}
		if !ok && raftAs == "C03" {
			if m.Type == raftpb.MsgAppResp {
				out.Violate("C03", "C03/append-acknowledged-before-durable", fmt.Sprintf("node %d, deposed by the append of the new leader %d, acknowledged it up to index %d (term %d) while its log store held last index %d: the leader may commit and acknowledge a write that a crash of this replica loses", from.id, m.To, m.Index, m.Term, last))
			}
		} else if !ok {
			out.Violate("C05", "C05/message-before-durable/"+m.Type.String(), fmt.Sprintf("node %d sent %s(term %d, index %d, reject %v) to %d while its log store held term %d, vote %d, last index %d", from.id, m.Type, m.Term, m.Index, m.Reject, m.To, hs.Term, hs.Vote, last))
		}
	}
	n, err := c.start(1, []uint64{1, 2, 3}, "node-1")
	if err != nil {
		out.Violate(raftAs, raftAs+"/start-fails", err.Error())
		return
	}
	waitFor(3*time.Second, func() bool { li, _ := n.w.inner.LastIndex(); return li >= 3 })
	send := func(m raftpb.Message) {
		data, _ := m.Marshal()
		n.tr.Receive(context.Background(), &pb.RaftMessage{GroupId: c.gid.Bytes(), Message: data})
	}
	// node 1 campaigns; node 2 grants: node 1 leads term T
	n.g.VerifCampaign()
	if !waitFor(3*time.Second, func() bool { hs, _ := n.w.peekHardState(); return hs.Term >= 1 && hs.Vote == 1 }) {
		out.Local("the replica did not campaign")
		c.teardown()
		return
	}
	hs, _ := n.w.peekHardState()
	T := hs.Term
	send(raftpb.Message{Type: raftpb.MsgVoteResp, From: 2, To: 1, Term: T})
	if !waitFor(3*time.Second, func() bool { return n.g.VerifStatus().Lead == 1 }) {
		out.Local("the replica did not become leader of term %d", T)
		c.teardown()
		return
	}
	// its own empty entry of term T reaches the store
	waitFor(2*time.Second, func() bool { li, _ := n.w.inner.LastIndex(); return li >= 4 })
	li, _ := n.w.inner.LastIndex()
	prev := li - 1
	pt, _ := n.w.inner.Term(prev)
	// the leader of term T takes a few proposals it will never commit: an uncommitted tail that the
	// successor's append cuts off
	for i := 0; i < 5; i++ {
		ctx, cancel := context.WithTimeout(context.Background(), 50*time.Millisecond)
		n.g.Propose(ctx, []byte(fmt.Sprintf("tail-%d", i)))
		cancel()
	}
	waitFor(2*time.Second, func() bool { l2, _ := n.w.inner.LastIndex(); return l2 >= li+5 })
	tailLast, _ := n.w.inner.LastIndex()
	out.Local("node 1 leads term %d with last index %d (uncommitted tail up to %d); node 2, leader of term %d, appends at index %d", T, li, tailLast, T+1, prev+1)
	send(raftpb.Message{Type: raftpb.MsgApp, From: 2, To: 1, Term: T + 1, Index: prev, LogTerm: pt, Commit: prev,
		Entries: []raftpb.Entry{{Term: T + 1, Index: prev + 1, Type: raftpb.EntryNormal}}})
	got := waitFor(3*time.Second, func() bool { mu.Lock(); defer mu.Unlock(); return len(acks) > 0 })
	time.Sleep(50 * time.Millisecond)
	mu.Lock()
	out.Local("append responses of the deposed leader: %v", acks)
	mu.Unlock()
	if got {
		out.Nontrivial("deposed-leader-learns-by-append")
		// the deposed leader's log now ends at the successor's entry; it crashes and restarts before its log
		// grows again: the restarted replica must resume from that log, not from the tail it was told to drop
		if l3, _ := n.w.inner.LastIndex(); l3 == prev+1 {
			n.ctl.kill()
			n.stopIncarnation()
			reopenMustAgree(out, raftAs, 1, n, c.gid)
			out.Local("deposed leader (log cut back from %d to %d) stopped; a fresh store over its database compared with the stopped one", tailLast, l3)
		} else {
			out.Local("the deposed leader's log ends at %d, not at %d: the restart comparison is skipped", l3, prev+1)
		}
	}
	c.teardown()
}

// corpus: the snapshot for a replica that fell behind a compaction is lost in the network (the send
// runs into its deadline; nothing is refused). The leader must learn that the transfer failed and send
// it again: once the faults stop, the replica catches up.
func raftCorpusLostSnapshot(out *childOut) {
	out.Begin("corpus a snapshot for a lagging replica is lost in the network")
	defer out.End()
	c := newRsCluster(uuid.NewV4(), false, NewRng(17))
	c.viol = func(p, s, w string) { out.Violate(p, s, w) }
	peers := []uint64{1, 2, 3}
	for _, id := range peers {
		if _, err := c.start(id, peers, fmt.Sprintf("node-%d", id)); err != nil {
			out.Violate("C05", "C05/start-fails", err.Error())
			return
		}
	}
	c.node(1).g.VerifCampaign()
	last := time.Now()
	if !waitFor(40*time.Second, func() bool {
		if l := c.leader(); l != nil {
			return true
		}
		if time.Since(last) > 3*time.Second {
			last = time.Now()
			c.node(1).g.VerifCampaign()
		}
		return false
	}) {
		out.Local("no leader within 40 s: scenario not reached")
		c.teardown()
		return
	}
	lead := c.leader()
	lag := uint64(3)
	if lead.id == 3 {
		lag = 2
	}
	c.partition(map[uint64]bool{lag: true})
	n := 0
	for i := 0; i < 40; i++ {
		ctx, cancel := context.WithTimeout(context.Background(), 300*time.Millisecond)
		if lead.g.Propose(ctx, []byte(fmt.Sprintf("lost-snap-%d", i))) == nil {
			n++
		}
		cancel()
	}
	applied := func(id uint64) int {
		nd := c.node(id)
		nd.mu.Lock()
		defer nd.mu.Unlock()
		return len(nd.applied)
	}
	waitFor(10*time.Second, func() bool { return applied(lead.id) >= n })
	compacted := 0
	for _, id := range peers {
		if id == lag {
			continue
		}
		done := make(chan error, 1)
		go func(nd *rsNode) { done <- nd.g.VerifSnapshotNow() }(c.node(id))
		select {
		case err := <-done:
			if err == nil {
				compacted++
			}
		case <-time.After(3 * time.Second):
		}
	}
	c.mu.Lock()
	c.holeSnap = map[uint64]int{lag: 1}
	c.mu.Unlock()
	c.heal()
	out.Local("replica %d cut off; %d entries committed; %d replicas compacted their log; links healed, the first snapshot sent to %d gets lost", lag, applied(lead.id), compacted, lag)
	ok := waitFor(40*time.Second, func() bool { return applied(lag) >= applied(lead.id) && applied(lead.id) >= n })
	c.mu.Lock()
	holed := c.counts["fault:snapshot-black-holed"]
	snaps := c.counts["msg:MsgSnap"]
	c.mu.Unlock()
	out.Local("snapshots sent: %d (lost: %d); replica %d applied %d of %d", snaps, holed, lag, applied(lag), applied(lead.id))
	if compacted > 0 && holed > 0 {
		out.Nontrivial("lost-snapshot")
		if !ok {
			out.Violate("C05", "C05/no-convergence", fmt.Sprintf("replica %d fell behind a compaction; the first snapshot sent to it was lost in the network (the send ran into its deadline); 40 s after all faults stopped it has applied %d of %d entries and %d snapshots were ever sent: the leader was never told that the transfer failed", lag, applied(lag), applied(lead.id), snaps))
		}
	}
	c.teardown()
}
