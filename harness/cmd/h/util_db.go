package main

import (
	"os"
	"regexp"
	"strings"
	"sync"

	badger "github.com/dgraph-io/badger/v2"
)

var (
	memDBOnce sync.Once
	memDBInst *badger.DB
)

// memDB is one shared in-memory Badger instance (the partitions' WALs only need it to exist).
func memDB() *badger.DB {
	memDBOnce.Do(func() {
		opts := badger.DefaultOptions("").WithInMemory(true).WithLogger(nil)
		db, err := badger.Open(opts)
		if err != nil {
			panic(err)
		}
		memDBInst = db
	})
	return memDBInst
}

// diskDB opens a Badger database in a fresh temporary directory (removed by the returned func).
func diskDB() (*badger.DB, string, func()) {
	base := os.Getenv("VERIF_TMP")
	if base == "" {
		base = os.TempDir()
	}
	dir, err := os.MkdirTemp(base, "verif-badger-")
	if err != nil {
		panic(err)
	}
	db, err := badger.Open(badger.DefaultOptions(dir).WithLogger(nil).WithSyncWrites(false))
	if err != nil {
		panic(err)
	}
	return db, dir, func() { db.Close(); os.RemoveAll(dir) }
}

// serverStoreTruncates: does the server open its store so that a record torn by a crash at the end of
// the value log is cut off (badger's Truncate option)? Read off /repo's server.go, so that the stores
// the engines open after a simulated or real crash recover exactly as the server's own store would.
var (
	storeTruncOnce sync.Once
	storeTrunc     bool
)

func serverStoreTruncates() bool {
	storeTruncOnce.Do(func() {
		repo := os.Getenv("VERIF_REPO")
		if repo == "" {
			repo = "/repo"
		}
		b, err := os.ReadFile(repo + "/server.go")
		if err != nil {
			return
		}
		for _, l := range strings.Split(string(b), "\n") {
			l = regexp.MustCompile(`\s+`).ReplaceAllString(l, "")
			if strings.Contains(l, "badger.Open(") && strings.Contains(l, "WithTruncate(true)") {
				storeTrunc = true
			}
		}
	})
	return storeTrunc
}
