package main

import (
	"os"
	"sync"

	badger "github.com/dgraph-io/badger/v2"
)

var (
	memDBOnce sync.Once
	memDBInst *badger.DB
)

// memDB is one shared in-memory Badger instance (the partitions' WALs only need it to exist).
func memDB() *badger.DB {
	memDBOnce.Do(func() {
		opts := badger.DefaultOptions("").WithInMemory(true).WithLogger(nil)
		db, err := badger.Open(opts)
		if err != nil {
			panic(err)
		}
		memDBInst = db
	})
	return memDBInst
}

// diskDB opens a Badger database in a fresh temporary directory (removed by the returned func).
func diskDB() (*badger.DB, string, func()) {
	base := os.Getenv("VERIF_TMP")
	if base == "" {
		base = os.TempDir()
	}
	dir, err := os.MkdirTemp(base, "verif-badger-")
	if err != nil {
		panic(err)
	}
	db, err := badger.Open(badger.DefaultOptions(dir).WithLogger(nil).WithSyncWrites(false))
	if err != nil {
		panic(err)
	}
	return db, dir, func() { db.Close(); os.RemoveAll(dir) }
}
