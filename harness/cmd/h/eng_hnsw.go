package main

// Engine hnsw (C01, C07, feeds C08): random insert / remove / search / save+load histories on
// a real index.Hnsw.
//
// Exact regime (all pairwise distances of the vector universe distinct, the collection fits
// in the beams, no candidate extension): every step of the algorithm is independent of Go's
// map iteration order and of heap tie-breaking, so the Lean model must reproduce the *whole
// graph* (entry point, levels, every link with its cached score, tombstoned link targets)
// after every operation and every search result exactly.
//
// Wide regime (ties, duplicates, beams smaller than the collection, candidate extension, M=16):
// the graph is legitimately order-dependent; there the property's own predicate (oracle) is
// evaluated on the real results against a reference map, plus the structural invariant on the
// dumped state.

import (
	"bytes"
	"context"
	"fmt"
	"math"
	"sort"
	"strings"

	"github.com/marekgalovic/anndb/index"
	"github.com/marekgalovic/anndb/index/space"
	amath "github.com/marekgalovic/anndb/math"
	uuid "github.com/satori/go.uuid"
)

func init() {
	register("hnsw", runHnsw)
}

func rid(n int) uuid.UUID {
	// low half = n (so the id is readable), high half = a mix of n, so that ids spread over
	// partitions and shards for every modulus (UuidMod adds the two halves)
	var u uuid.UUID
	u[0] = byte(n)
	u[1] = byte(n >> 8)
	m := (uint64(n) + 1) * 0x9E3779B97F4A7C15
	for i := 0; i < 6; i++ {
		u[8+i] = byte(m >> (8 * uint(i+1)))
	}
	u[14] = 0xA5
	u[15] = byte(n >> 4)
	return u
}

var ridBack = map[uuid.UUID]int{}

func idn(u uuid.UUID) int {
	if n, ok := ridBack[u]; ok {
		return n
	}
	n := int(u[0]) | int(u[1])<<8
	ridBack[u] = n
	return n
}

func f32bits(f float32) uint32 { return math.Float32bits(f) }

func mdString(m index.Metadata) string {
	if len(m) == 0 {
		return "-"
	}
	ks := make([]string, 0, len(m))
	for k := range m {
		ks = append(ks, k)
	}
	sort.Strings(ks)
	var ss []string
	for _, k := range ks {
		ss = append(ss, k+"="+m[k])
	}
	return strings.Join(ss, ",")
}

type hnswRun struct {
	c      *Ctx
	sp     space.Space
	spName string
	h      *index.Hnsw
	vecs   []amath.Vector
	vecIdx map[string]int
	ref    map[int]refItem // id -> (vec index, metadata)
	dim    int
}

type refItem struct {
	vec int
	md  index.Metadata
}

func vecKey(v amath.Vector) string {
	var b strings.Builder
	for _, x := range v {
		fmt.Fprintf(&b, "%08x", f32bits(x))
	}
	return b.String()
}

// dump in the canonical text form shared with the model driver
func (r *hnswRun) dumpText(d index.VerifDump) string {
	var sb strings.Builder
	if !d.HasEntry {
		sb.WriteString("D ep=-")
	} else {
		x := ""
		if d.EntryDeleted {
			x = "X"
		}
		fmt.Fprintf(&sb, "D ep=%d%s", idn(d.EntryId), x)
	}
	fmt.Fprintf(&sb, " n=%d", d.Len)
	vs := append([]index.VerifVertex{}, d.Vertices...)
	sort.Slice(vs, func(i, j int) bool { return idn(vs[i].Id) < idn(vs[j].Id) })
	for _, v := range vs {
		vi, ok := r.vecIdx[vecKey(v.Vector)]
		if !ok {
			vi = -1
		}
		fmt.Fprintf(&sb, "\nV %d L%d v%d m%s", idn(v.Id), v.Level, vi, mdString(v.Metadata))
		for l := 0; l <= v.Level && l < len(v.Edges); l++ {
			type e struct {
				id, x int
				d     uint32
			}
			var es []e
			for _, ed := range v.Edges[l] {
				x := 0
				if ed.Deleted {
					x = 1
				}
				es = append(es, e{idn(ed.Id), x, f32bits(ed.Score)})
			}
			sort.Slice(es, func(i, j int) bool {
				if es[i].id != es[j].id {
					return es[i].id < es[j].id
				}
				if es[i].x != es[j].x {
					return es[i].x < es[j].x
				}
				return es[i].d < es[j].d
			})
			var ss []string
			for _, x := range es {
				m := ""
				if x.x == 1 {
					m = "X"
				}
				ss = append(ss, fmt.Sprintf("%d%s/%d", x.id, m, x.d))
			}
			fmt.Fprintf(&sb, " | %s", strings.Join(ss, ","))
		}
	}
	return sb.String()
}

// structural invariant of the dumped state (what C01's theorems assume of a reachable state)
func (r *hnswRun) checkStructure(d index.VerifDump, prop string) {
	c := r.c
	if d.HasEntry != (len(d.Vertices) > 0) {
		c.Violate(prop, prop+"/entry-vs-empty", fmt.Sprintf("entry point present=%v but %d items stored", d.HasEntry, len(d.Vertices)), c.History())
	}
	if d.HasEntry && (d.EntryDeleted || !d.EntryStored) {
		c.Violate(prop, prop+"/entry-not-live", "the entry point is a removed vertex", c.History())
	}
	if int(d.Len) != len(d.Vertices) || len(d.Vertices) != len(r.ref) {
		c.Violate(prop, prop+"/len", fmt.Sprintf("Len=%d stored=%d reference=%d", d.Len, len(d.Vertices), len(r.ref)), c.History())
	}
	levels := map[uuid.UUID]int{}
	for _, v := range d.Vertices {
		levels[v.Id] = v.Level
		if v.Deleted {
			c.Violate(prop, prop+"/stored-tombstone", "a stored vertex is marked deleted", c.History())
		}
		if len(v.Edges) != v.Level+1 {
			c.Violate(prop, prop+"/edge-lists", "vertex does not have level+1 link lists", c.History())
		}
	}
	for _, v := range d.Vertices {
		for l, es := range v.Edges {
			for _, e := range es {
				if !e.Deleted {
					if lv, ok := levels[e.Id]; !ok || lv < l {
						c.Violate(prop, prop+"/link-level", fmt.Sprintf("link at level %d to a vertex of lower level or unknown id", l), c.History())
					}
				}
			}
		}
	}
}

// the property's own predicate on one search result
func (r *hnswRun) checkSearch(q amath.Vector, k int, res index.SearchResult, prop string) {
	c := r.c
	seen := map[int]bool{}
	for i, x := range res {
		id := idn(x.Id)
		it, ok := r.ref[id]
		if !ok || rid(id) != x.Id {
			c.Violate(prop, prop+"/returns-removed", fmt.Sprintf("search returned id %d which is not stored", id), c.History())
			continue
		}
		if mdString(it.md) != mdString(x.Metadata) {
			c.Violate(prop, prop+"/metadata", fmt.Sprintf("search returned id %d with metadata %s, stored %s", id, mdString(x.Metadata), mdString(it.md)), c.History())
		}
		want := r.sp.Distance(q, r.vecs[it.vec])
		if f32bits(want) != f32bits(x.Score) {
			c.Violate(prop, prop+"/score", fmt.Sprintf("search returned id %d with score bits %d, distance to its current vector is %d", id, f32bits(x.Score), f32bits(want)), c.History())
		}
		if seen[id] {
			c.Violate(prop, prop+"/duplicate", fmt.Sprintf("id %d returned twice", id), c.History())
		}
		seen[id] = true
		if i > 0 && res[i-1].Score > x.Score {
			c.Violate(prop, prop+"/unsorted", "results are not in ascending score order", c.History())
		}
	}
	if len(res) > k {
		c.Violate(prop, prop+"/more-than-k", fmt.Sprintf("%d results for k=%d", len(res), k), c.History())
	}
	if len(res) == 0 && k >= 1 && len(r.ref) > 0 {
		c.Violate(prop, prop+"/empty-result", fmt.Sprintf("empty result on a collection of %d items", len(r.ref)), c.History())
	}
}

func (r *hnswRun) hitsText(res index.SearchResult) string {
	var ss []string
	for _, x := range res {
		ss = append(ss, fmt.Sprintf("%d:%d:%s", idn(x.Id), f32bits(x.Score), mdString(x.Metadata)))
	}
	return strings.TrimRight("hits "+strings.Join(ss, " "), " ")
}

func newSpace(i int) (space.Space, string) {
	switch i % 3 {
	case 0:
		return space.NewEuclidean(), "euclidean"
	case 1:
		return space.NewManhattan(), "manhattan"
	}
	return space.NewCosine(), "cosine"
}

type hnswCfg struct {
	m, mMax, mMax0, ef, efC     int
	heur, ext, keep             bool
}

func (g hnswCfg) options() []index.HnswOption {
	algo := index.HnswSearchSimple
	if g.heur {
		algo = index.HnswSearchHeuristic
	}
	return []index.HnswOption{index.HnswM(g.m), index.HnswMmax(g.mMax), index.HnswMmax0(g.mMax0), index.HnswEf(g.ef),
		index.HnswEfConstruction(g.efC), index.HnswSearchAlgorithm(algo), index.HnswHeuristicExtendCandidates(g.ext),
		index.HnswHeuristicKeepPruned(g.keep), index.HnswLevelMultiplier(1.0)}
}

func b2i(b bool) int {
	if b {
		return 1
	}
	return 0
}

// genVectors: distinct random vectors (exact regime) or a small integer grid with duplicates
func genVectors(r *Rng, n, dim int, grid bool) []amath.Vector {
	vs := make([]amath.Vector, n)
	for i := range vs {
		v := make(amath.Vector, dim)
		for j := range v {
			if grid {
				v[j] = float32(r.Intn(4)) + 1 // never the zero vector (cosine)
			} else {
				v[j] = float32(r.Norm()*3) + 0.001*float32(i+1)
			}
		}
		vs[i] = v
	}
	return vs
}

type scriptOp struct {
	kind       string // ins rem srch reload
	id, vec, l int
	k          int
	md         string
	used       bool // reload into a used index
}

func parseMd(s string) index.Metadata {
	if s == "-" || s == "" {
		return nil
	}
	m := index.Metadata{}
	for _, kv := range strings.Split(s, ",") {
		i := strings.IndexByte(kv, '=')
		m[kv[:i]] = kv[i+1:]
	}
	return m
}

// runHistory executes one history; exact => ops are mirrored to the model with full dumps.
func (r *hnswRun) runHistory(g hnswCfg, exact bool, ops []scriptOp, props []string) {
	c := r.c
	emit := c.OpLocal
	answer := func(format string, a ...interface{}) {}
	if exact {
		emit = c.Op
		answer = c.Res
	}
	emit("cfg %d %d %d %d %d %d %d %d", g.m, g.mMax, g.mMax0, g.ef, g.efC, b2i(g.heur), b2i(g.ext), b2i(g.keep))
	answer("cfg ok")
	c.OpLocal("space=%s dim=%d exact=%v", r.spName, r.dim, exact)
	if exact {
		var sb strings.Builder
		n := len(r.vecs)
		fmt.Fprintf(&sb, "dist %d", n)
		for i := 0; i < n; i++ {
			for j := 0; j < n; j++ {
				fmt.Fprintf(&sb, " %d", f32bits(r.sp.Distance(r.vecs[i], r.vecs[j])))
			}
		}
		c.OpQuiet(sb.String())
		c.Res("dist ok")
	}
	r.h = index.NewHnsw(uint(r.dim), r.sp, g.options()...)
	r.ref = map[int]refItem{}
	for _, op := range ops {
		c.Count("op:" + op.kind)
		switch op.kind {
		case "ins":
			md := parseMd(op.md)
			err := r.h.Insert(rid(op.id), r.vecs[op.vec], md, op.l)
			emit("ins %d %d %d %s", op.id, op.vec, op.l, op.md)
			_, had := r.ref[op.id]
			if err == nil {
				answer("ins ok")
				if had {
					for _, p := range props {
						c.Violate(p, p+"/insert-existing-ok", "insert of an existing id succeeded", c.History())
					}
				}
				r.ref[op.id] = refItem{op.vec, md}
			} else if !mdFitsFormat(md) && err.Error() == "Metadata too large" {
				// refused before anything else is looked at: metadata the snapshot format cannot hold
				answer("ins mdtoolarge")
				c.Count("branch:insert-metadata-too-large")
			} else {
				answer("ins exists")
				c.Count("branch:insert-exists")
				if !had || err != index.ItemAlreadyExistsError {
					for _, p := range props {
						c.Violate(p, p+"/insert-new-fails", "insert of a new id failed: "+err.Error(), c.History())
					}
				}
			}
		case "rem":
			d0 := r.h.VerifDump()
			wasEntry := d0.HasEntry && d0.EntryId == rid(op.id)
			err := r.h.Remove(rid(op.id))
			d1 := r.h.VerifDump()
			after := "-"
			if d1.HasEntry {
				after = fmt.Sprint(idn(d1.EntryId))
			}
			emit("rem %d %s", op.id, after)
			_, had := r.ref[op.id]
			if err == nil {
				answer("rem ok")
				delete(r.ref, op.id)
				if wasEntry {
					c.Nontrivial("remove-entry-point")
				}
				if !had {
					for _, p := range props {
						c.Violate(p, p+"/remove-absent-ok", "remove of an absent id succeeded", c.History())
					}
				}
			} else {
				answer("rem notfound")
				c.Count("branch:remove-notfound")
				if had {
					for _, p := range props {
						c.Violate(p, p+"/remove-present-fails", "remove of a stored id failed", c.History())
					}
				}
			}
		case "srch":
			res, err := r.h.Search(context.Background(), r.vecs[op.vec], uint(op.k))
			emit("srch %d %d", op.vec, op.k)
			if err != nil {
				answer("hits error")
			} else if exact {
				answer("%s", r.hitsText(res))
			} else {
				answer("hits -")
			}
			for _, p := range props {
				r.checkSearch(r.vecs[op.vec], op.k, res, p)
			}
			if len(res) > 1 {
				c.Nontrivial("search-multi")
			}
			continue // no dump after a search
		case "loadempty":
			// the snapshot of an empty index (Save writes nothing for it), loaded into this used index: a replica
			// that is handed the snapshot of a partition emptied meanwhile. Nothing may be left of what it held.
			var buf bytes.Buffer
			if err := index.NewHnsw(uint(r.dim), r.sp, g.options()...).Save(&buf, false); err != nil {
				c.Violate(props[0], props[0]+"/save-error", err.Error(), c.History())
			}
			if err := r.h.Load(bytes.NewReader(buf.Bytes()), false); err != nil {
				c.Violate(props[0], props[0]+"/load-error", "Load of an empty index's Save output failed: "+err.Error(), c.History())
			}
			r.ref = map[int]refItem{}
			emit("loadempty")
			answer("loadempty ok")
			c.Nontrivial("load-empty-into-used")
		case "reload":
			var buf bytes.Buffer
			if err := r.h.Save(&buf, false); err != nil {
				c.Violate(props[0], props[0]+"/save-error", err.Error(), c.History())
			}
			tgt := r.h
			if !op.used {
				tgt = index.NewHnsw(uint(r.dim), r.sp, g.options()...)
			}
			if err := tgt.Load(bytes.NewReader(buf.Bytes()), false); err != nil {
				c.Violate(props[0], props[0]+"/load-error", "Load of the index's own Save output failed: "+err.Error(), c.History())
			}
			r.h = tgt
			emit("reload")
			answer("reload ok")
			c.Nontrivial("save-load")
		}
		d := r.h.VerifDump()
		for _, p := range props {
			r.checkStructure(d, p)
		}
		if exact {
			answer("%s", r.dumpText(d))
		}
	}
}

func runHnsw(c *Ctx) {
	c.Stats.Rule = "random histories of insert/remove/search/save+load on a real index.Hnsw over 3 metrics x both selection modes x M in {1,2,3,4,16}; exact regime = distinct distances, collection within the beams, no extension (model must reproduce the full graph); a history is non-trivial when it removes the current entry point, reloads a snapshot, or gets a multi-item search result; distinct = distinct op sequence"
	rng := NewRng(c.Seed)
	nExact := c.ArgInt("exact", c.Pick(150, 2500))
	nWide := c.ArgInt("wide", c.Pick(150, 3000))
	maxOps := c.ArgInt("ops", c.Pick(50, 160))
	props := []string{"C01"}
	if p := c.Args["props"]; p != "" {
		props = strings.Split(p, ",")
	}

	// corpus: the two D1 witnesses (entry point handed to a tombstone / to nil)
	{
		r := &hnswRun{c: c, dim: 1}
		r.sp, r.spName = newSpace(0)
		r.vecs = []amath.Vector{{0}, {10}, {10.1}, {9.9}, {5}}
		r.vecIdx = map[string]int{}
		for i, v := range r.vecs {
			r.vecIdx[vecKey(v)] = i
		}
		g := hnswCfg{1, 1, 2, 20, 200, false, false, true}
		c.Begin("corpus-D1a")
		r.runHistory(g, true, []scriptOp{{kind: "ins", id: 1, vec: 0, md: "-"}, {kind: "ins", id: 2, vec: 1, md: "-"}, {kind: "ins", id: 3, vec: 2, md: "-"}, {kind: "ins", id: 4, vec: 3, md: "-"},
			{kind: "rem", id: 2}, {kind: "rem", id: 1}, {kind: "srch", vec: 4, k: 3}}, props)
		c.End()
		c.Begin("corpus-D1b")
		r.runHistory(g, true, []scriptOp{{kind: "ins", id: 1, vec: 0, md: "-"}, {kind: "ins", id: 2, vec: 1, md: "-"}, {kind: "ins", id: 3, vec: 2, md: "-"},
			{kind: "rem", id: 2}, {kind: "rem", id: 1}, {kind: "srch", vec: 4, k: 3}}, props)
		c.End()
	}

	corpus := false
	gen := func(r *Rng, exact bool) {
		run := &hnswRun{c: c}
		run.sp, run.spName = newSpace(r.Intn(3))
		run.dim = 1 + r.Intn(4)
		var g hnswCfg
		ms := []int{1, 2, 3, 4, 16}
		g.m = ms[r.Intn(len(ms))]
		if exact && g.m == 16 {
			g.m = 2
		}
		g.mMax = g.m
		g.mMax0 = 2 * g.m
		if r.Intn(4) == 0 { // unusual but legal budgets
			g.mMax = 1 + r.Intn(g.m+1)
			g.mMax0 = 1 + r.Intn(2*g.m+1)
		}
		g.heur = r.Intn(2) == 0
		g.keep = r.Intn(2) == 0
		maxLive := 0
		if exact {
			g.ef = 12 + r.Intn(30)
			g.efC = 12 + r.Intn(60)
			maxLive = g.ef
			if g.efC < maxLive {
				maxLive = g.efC
			}
			g.ext = false
		} else {
			g.ef = 1 + r.Intn(12)
			g.efC = 1 + r.Intn(12)
			g.ext = g.heur && r.Intn(2) == 0
			maxLive = 8 + r.Intn(60)
		}
		nOps := 8 + r.Intn(maxOps)
		nvec := nOps + 2
		run.vecs = genVectors(r, nvec, run.dim, !exact && r.Intn(2) == 0)
		run.vecIdx = map[string]int{}
		for i, v := range run.vecs {
			run.vecIdx[vecKey(v)] = i
		}
		if exact {
			// the regime needs pairwise distinct, non-negative, non-NaN distances
			seen := map[uint32]bool{}
			for i := range run.vecs {
				for j := range run.vecs {
					if i == j {
						continue
					}
					d := run.sp.Distance(run.vecs[i], run.vecs[j])
					if d != d || d < 0 {
						c.Count("skipped:negative-or-nan-distance")
						return
					}
					if j > i {
						b := f32bits(d)
						if seen[b] {
							c.Count("skipped:tie-in-exact-regime")
							return
						}
						seen[b] = true
					}
				}
			}
		}
		idUniverse := 6 + r.Intn(30)
		var ops []scriptOp
		live := map[int]bool{}
		vi := 0
		mds := []string{"-", "-", "a=1", "a=2,b=x", "k=v", "zz=" + strings.Repeat("q", 1+r.Intn(5)),
			"-", "a=1", "k=v", strings.Repeat("K", 255) + "=fits", strings.Repeat("K", 256) + "=refused"}
		for i := 0; i < nOps && vi < nvec; i++ {
			k := r.Intn(100)
			switch {
			case k < 50 && len(live) < maxLive:
				id := r.Intn(idUniverse)
				ops = append(ops, scriptOp{kind: "ins", id: id, vec: vi, l: r.Intn(4), md: mds[r.Intn(len(mds))]})
				vi++
				live[id] = true
			case k < 80:
				id := r.Intn(idUniverse)
				ops = append(ops, scriptOp{kind: "rem", id: id})
				delete(live, id)
			case k < 95:
				kk := r.Intn(8)
				if exact && kk > g.ef {
					kk = g.ef
				}
				ops = append(ops, scriptOp{kind: "srch", vec: vi, k: kk})
				vi++
			default:
				if r.Intn(4) == 0 {
					ops = append(ops, scriptOp{kind: "loadempty"})
					live = map[int]bool{}
				} else {
					ops = append(ops, scriptOp{kind: "reload", used: r.Intn(2) == 0})
				}
			}
		}
		if corpus { // an emptied index gets one item, loses it again, and is searched
			ops = []scriptOp{{kind: "ins", id: 1, vec: 0, l: 1, md: "-"}, {kind: "ins", id: 2, vec: 1, l: 0, md: "a=1"}, {kind: "ins", id: 3, vec: 2, l: 2, md: "-"},
				{kind: "loadempty"}, {kind: "srch", vec: 3, k: 3}, {kind: "ins", id: 4, vec: 4, l: 0, md: "-"}, {kind: "rem", id: 4},
				{kind: "srch", vec: 5, k: 3}, {kind: "ins", id: 2, vec: 6, l: 1, md: "-"}, {kind: "srch", vec: 7, k: 3}, {kind: "reload", used: true}, {kind: "srch", vec: 3, k: 2}}
		}
		label := "wide"
		if exact {
			label = "exact"
		}
		c.Begin(label)
		run.runHistory(g, exact, ops, props)
		c.End()
	}
	corpus = true
	gen(NewRng(5), true)
	gen(NewRng(6), false)
	corpus = false
	for i := 0; i < nExact; i++ {
		gen(rng.Fork(), true)
	}
	for i := 0; i < nWide; i++ {
		gen(rng.Fork(), false)
	}
}
