package main

import (
	"fmt"
	"os"
)

// childMain runs helpers that may crash the process (faulting kernels); see eng_simd.go.
var childHandlers = map[string]func([]string){}

func childMain(args []string) {
	if len(args) == 0 {
		os.Exit(2)
	}
	if f, ok := childHandlers[args[0]]; ok {
		f(args[1:])
		return
	}
	fmt.Fprintln(os.Stderr, "unknown child", args[0])
	os.Exit(2)
}
