// Command h is the correspondence / oracle harness. It is compiled on every check run
// against /repo's working tree (replace directive in go.mod) with build tag `verif`.
//
//	h <engine> -seed N -tier quick|thorough -out DIR [engine flags]
//
// Every engine writes, into DIR:
//
//	ops.txt    one request per line for the Lean model driver (lines starting with '#'
//	           are history markers, echoed verbatim by the driver)
//	impl.txt   what the real code answered, one line per request, same markers
//	stats.json evaluations, distinct non-trivial cases, histograms, samples, and the
//	           oracle's violations (the property's own predicate evaluated on the real
//	           code's outputs)
package main

import (
	"bufio"
	"crypto/sha256"
	"encoding/hex"
	"encoding/json"
	"flag"
	"fmt"
	"io"
	"os"
	"path/filepath"
	"runtime"
	"sort"
	"strings"
	"sync/atomic"
	"time"

	log "github.com/sirupsen/logrus"
)

// ---------------------------------------------------------------- PRNG (splitmix64)

type Rng struct{ s uint64 }

func NewRng(seed uint64) *Rng { return &Rng{seed*0x9E3779B97F4A7C15 + 0x1234567} }
func (r *Rng) U64() uint64 {
	r.s += 0x9E3779B97F4A7C15
	z := r.s
	z = (z ^ (z >> 30)) * 0xBF58476D1CE4E5B9
	z = (z ^ (z >> 27)) * 0x94D049BB133111EB
	return z ^ (z >> 31)
}
func (r *Rng) Intn(n int) int {
	if n <= 0 {
		return 0
	}
	return int(r.U64() % uint64(n))
}
func (r *Rng) Float() float64 { return float64(r.U64()>>11) / float64(1<<53) }
func (r *Rng) Norm() float64 { // sum of 12 uniforms - 6
	s := 0.0
	for i := 0; i < 12; i++ {
		s += r.Float()
	}
	return s - 6
}
func (r *Rng) Fork() *Rng { return &Rng{r.U64()} }
func (r *Rng) Perm(n int) []int {
	p := make([]int, n)
	for i := range p {
		p[i] = i
	}
	for i := n - 1; i > 0; i-- {
		j := r.Intn(i + 1)
		p[i], p[j] = p[j], p[i]
	}
	return p
}

// ---------------------------------------------------------------- run context

type Violation struct {
	Property  string      `json:"property"`
	Signature string      `json:"signature"`
	What      string      `json:"what"`
	Replay    interface{} `json:"replay"`
}

type Stats struct {
	Engine             string         `json:"engine"`
	Seed               uint64         `json:"seed"`
	Tier               string         `json:"tier"`
	Evaluations        int            `json:"evaluations"`
	DistinctNontrivial int            `json:"distinct_nontrivial"`
	Rule               string         `json:"rule"`
	Hist               map[string]int `json:"histogram"`
	Samples            []interface{}  `json:"samples"`
	Violations         []Violation    `json:"violations"`
	Notes              []string       `json:"notes,omitempty"`
	Exhaustive         bool           `json:"exhaustive,omitempty"`
}

type Ctx struct {
	Seed  uint64
	Tier  string
	Out   string
	Args  map[string]string
	ops   *bufio.Writer
	impl  *bufio.Writer
	fo    *os.File
	fi    *os.File
	Stats Stats
	seen  map[string]bool
	cur   []string // op lines of the current history (for replay / distinctness)
	nontr bool
	hno   int
}

func (c *Ctx) Thorough() bool { return c.Tier == "thorough" }

// Pick returns q for the quick tier and t for the thorough tier.
func (c *Ctx) Pick(q, t int) int {
	if c.Thorough() {
		return t
	}
	return q
}

// Begin starts history number n: a marker goes to both streams.
func (c *Ctx) Begin(label string) {
	c.hno++
	c.cur = c.cur[:0]
	c.nontr = false
	m := fmt.Sprintf("# h %d %s", c.hno, label)
	fmt.Fprintln(c.ops, m)
	fmt.Fprintln(c.impl, m)
}

// Op writes a request line for the model.
func (c *Ctx) Op(format string, a ...interface{}) {
	l := fmt.Sprintf(format, a...)
	c.cur = append(c.cur, l)
	fmt.Fprintln(c.ops, l)
}

// OpLocal records a line in the replayable history without sending it to the model.
func (c *Ctx) OpLocal(format string, a ...interface{}) {
	c.cur = append(c.cur, fmt.Sprintf(format, a...))
}

// OpQuiet writes a request line that is not kept in the replayable history (bulk tables).
func (c *Ctx) OpQuiet(l string) { fmt.Fprintln(c.ops, l) }

// Res writes what the real code answered.
func (c *Ctx) Res(format string, a ...interface{}) { fmt.Fprintf(c.impl, format+"\n", a...) }

// Nontrivial marks the current history as having reached a non-trivial branch.
func (c *Ctx) Nontrivial(kind string) {
	c.nontr = true
	c.Stats.Hist["nontrivial:"+kind]++
}
func (c *Ctx) Count(kind string) { c.Stats.Hist[kind]++ }

// End closes the current history: counts it, and counts it as distinct+non-trivial when it
// reached a non-trivial branch and its canonical op sequence was not seen before.
func (c *Ctx) End() {
	c.Stats.Evaluations++
	if c.nontr {
		h := sha256.Sum256([]byte(strings.Join(c.cur, "\n")))
		k := hex.EncodeToString(h[:8])
		if !c.seen[k] {
			c.seen[k] = true
			c.Stats.DistinctNontrivial++
		}
	}
	if len(c.Stats.Samples) < 3 && len(c.cur) > 0 {
		n := len(c.cur)
		if n > 40 {
			n = 40
		}
		c.Stats.Samples = append(c.Stats.Samples, append([]string{}, c.cur[:n]...))
	}
}

// History returns a copy of the current history's op lines (for replays).
func (c *Ctx) History() []string { return append([]string{}, c.cur...) }

func (c *Ctx) Violate(prop, sig, what string, replay interface{}) {
	for _, v := range c.Stats.Violations {
		if v.Property == prop && v.Signature == sig {
			return // one witness per signature is enough
		}
	}
	v := Violation{prop, sig, what, replay}
	c.Stats.Violations = append(c.Stats.Violations, v)
	// also on disk at once: a violation found before the code under test takes the process down
	// must not be lost with it (the check reads this file when the engine did not finish)
	if b, err := json.Marshal(v); err == nil && c.Out != "" {
		if f, err := os.OpenFile(filepath.Join(c.Out, "violations.jsonl"), os.O_APPEND|os.O_CREATE|os.O_WRONLY, 0644); err == nil {
			f.Write(append(b, '\n'))
			f.Close()
		}
	}
}

func (c *Ctx) Note(format string, a ...interface{}) {
	c.Stats.Notes = append(c.Stats.Notes, fmt.Sprintf(format, a...))
}

func (c *Ctx) ArgInt(name string, def int) int {
	if v, ok := c.Args[name]; ok {
		var n int
		fmt.Sscan(v, &n)
		return n
	}
	return def
}

func (c *Ctx) close() {
	c.ops.Flush()
	c.impl.Flush()
	c.fo.Close()
	c.fi.Close()
	keys := make([]string, 0, len(c.Stats.Hist))
	for k := range c.Stats.Hist {
		keys = append(keys, k)
	}
	sort.Strings(keys)
	b, _ := json.MarshalIndent(c.Stats, "", " ")
	if err := os.WriteFile(filepath.Join(c.Out, "stats.json"), b, 0644); err != nil {
		panic(err)
	}
}

// Guard runs f under a watchdog. If f does not return within d the run is abandoned: the
// violation is recorded, the outputs are flushed and the process exits (the stuck goroutine
// cannot be stopped). A panic inside f is returned.
func (c *Ctx) Guard(d time.Duration, prop, sig, what string, f func()) (panicked interface{}) {
	done := make(chan interface{}, 1)
	go func() {
		defer func() { done <- recover() }()
		f()
	}()
	deadline := time.After(d)
	tick := time.NewTicker(50 * time.Millisecond)
	defer tick.Stop()
	for {
		select {
		case p := <-done:
			return p
		case <-tick.C:
			var ms runtime.MemStats
			runtime.ReadMemStats(&ms)
			if ms.HeapAlloc > 6<<30 {
				c.Violate(prop, sig, what+" (more than 6 GiB allocated: memory driven by numbers read, not by the input)", c.History())
				c.End()
				c.close()
				os.Exit(0)
			}
		case <-deadline:
			c.Violate(prop, sig, what+fmt.Sprintf(" (no return within %s)", d), c.History())
			c.End()
			c.close()
			os.Exit(0)
		}
	}
}

// fatalHook makes a log.Fatal of the code under test visible: the message goes to stderr
// (the process then exits with status 1, which the check reports as a crash of the engine).
type fatalHook struct{}

// shuttingDown > 0 while a simulated cluster is being torn down
var shuttingDown int32

func (fatalHook) Levels() []log.Level { return []log.Level{log.FatalLevel, log.PanicLevel} }
func (fatalHook) Fire(e *log.Entry) error {
	if atomic.LoadInt32(&shuttingDown) > 0 {
		return nil
	}
	fmt.Fprintf(os.Stderr, "log.Fatal in the code under test: %s %v\n", e.Message, e.Data)
	// the process is about to exit: leave the finding, with the history that led to it, on disk
	if c := currentCtx; c != nil {
		defer func() { recover() }()
		c.Violate("", "process-died/log-fatal", fmt.Sprintf("the code under test ended the process with log.Fatal: %s %v", e.Message, e.Data), c.History())
	}
	return nil
}

// currentCtx: the context of the engine that runs in this process (nil in child processes, whose
// death the parent reports)
var currentCtx *Ctx

type engine struct {
	name string
	run  func(*Ctx)
}

var engines []engine

func register(name string, run func(*Ctx)) { engines = append(engines, engine{name, run}) }

func main() {
	if len(os.Args) < 2 {
		fmt.Fprintln(os.Stderr, "usage: h <engine> -seed N -tier T -out DIR [k=v ...]")
		os.Exit(2)
	}
	name := os.Args[1]
	go memoryWatchdog()
	log.SetOutput(io.Discard)
	if os.Getenv("VERIF_LOG") != "" { // debugging aid: the code under test's own log
		log.SetOutput(os.Stderr)
	}
	log.AddHook(fatalHook{})
	log.StandardLogger().ExitFunc = func(code int) {
		if atomic.LoadInt32(&shuttingDown) > 0 {
			runtime.Goexit() // a group noticing that its database was closed during teardown
		}
		os.Exit(code)
	}
	fs := flag.NewFlagSet("h", flag.ExitOnError)
	seed := fs.Uint64("seed", 1, "PRNG seed")
	tier := fs.String("tier", "quick", "quick|thorough")
	out := fs.String("out", "", "output directory")
	fs.Parse(os.Args[2:])
	if name == "child" { // child-process helpers (kernels that may fault)
		childMain(fs.Args())
		return
	}
	if *out == "" {
		fmt.Fprintln(os.Stderr, "-out required")
		os.Exit(2)
	}
	os.MkdirAll(*out, 0755)
	c := &Ctx{Seed: *seed, Tier: *tier, Out: *out, Args: map[string]string{}, seen: map[string]bool{}}
	currentCtx = c
	for _, kv := range fs.Args() {
		if i := strings.IndexByte(kv, '='); i > 0 {
			c.Args[kv[:i]] = kv[i+1:]
		}
	}
	var err error
	if c.fo, err = os.Create(filepath.Join(*out, "ops.txt")); err != nil {
		panic(err)
	}
	if c.fi, err = os.Create(filepath.Join(*out, "impl.txt")); err != nil {
		panic(err)
	}
	c.ops = bufio.NewWriterSize(c.fo, 1<<20)
	c.impl = bufio.NewWriterSize(c.fi, 1<<20)
	c.Stats = Stats{Engine: name, Seed: *seed, Tier: *tier, Hist: map[string]int{}}
	for _, e := range engines {
		if e.name == name {
			e.run(c)
			c.close()
			return
		}
	}
	fmt.Fprintln(os.Stderr, "unknown engine", name)
	os.Exit(2)
}


// memoryWatchdog ends the process when its heap grows beyond VERIF_MEM_GB (default 12 GiB): code
// under test that allocates by a number it read from a corrupt stream must not take the machine
// down. The death is reported like any other death of the process running the code under test
// (violations found so far are on disk already).
func memoryWatchdog() {
	limit := uint64(12)
	if v := os.Getenv("VERIF_MEM_GB"); v != "" {
		fmt.Sscan(v, &limit)
	}
	limit <<= 30
	var ms runtime.MemStats
	for {
		time.Sleep(300 * time.Millisecond)
		runtime.ReadMemStats(&ms)
		if ms.HeapInuse+ms.StackInuse > limit {
			fmt.Fprintf(os.Stderr, "fatal error: verif memory limit exceeded: %d MiB in use (limit %d MiB): the code under test allocates without bound\n", (ms.HeapInuse+ms.StackInuse)>>20, limit>>20)
			os.Exit(86)
		}
	}
}
