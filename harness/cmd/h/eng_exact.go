package main

// Engine exact (C07).
//
// Part 1, exactness: insert-only collections of n <= 2M+1 items (no level-0 link is ever
// dropped) covered by the beam (n <= max(ef, k)), over random and adversarial point sets (grids
// with many ties and duplicates, Gaussian clouds, a far outlier inserted last, scaled copies for
// the cosine metric), every insertion order and level assignment the generator draws (all 0,
// increasing, geometric, all high), the three metrics, both selection modes with and without
// candidate extension, default and explicit Mmax / Mmax0. The real Search result must be the
// brute-force ranking computed with the same space.Distance: same length, same score sequence bit
// for bit, distinct stored ids each carrying its own distance. The Lean driver recomputes the
// top-k of the distance row (Model: exactTopK), the specification `search_exact` is stated against.
//
// Part 2, recall floor (a measurement, not a theorem): random point sets of a few thousand items
// in 8-64 dimensions under default parameters; mean recall@10 over many queries against brute
// force must stay above 0.8.

import (
	"context"
	"fmt"
	"math"
	"sort"
	"strings"

	"github.com/marekgalovic/anndb/index"
	"github.com/marekgalovic/anndb/index/space"
	amath "github.com/marekgalovic/anndb/math"
	uuid "github.com/satori/go.uuid"
)

func init() { register("exact", runExact) }

func spaceByName(n int) (space.Space, string) {
	switch n % 3 {
	case 0:
		return space.NewEuclidean(), "euclidean"
	case 1:
		return space.NewManhattan(), "manhattan"
	}
	return space.NewCosine(), "cosine"
}

func runExact(c *Ctx) {
	c.Stats.Rule = "exactness: a case = (point set, insertion order, level assignment, configuration, metric, selection mode) with n <= 2M+1 <= covered by the beam, each queried with several (query, k); non-trivial = n >= 4 with at least one vertex above level 0 or an explicit Mmax < M; distinct = distinct case. recall: a case = one random point set (default parameters) with its mean recall@10 over the queries"
	rng := NewRng(c.Seed)
	cases := c.ArgInt("cases", c.Pick(400, 6000))
	for i := 0; i < cases; i++ {
		exactCase(c, rng.Fork(), i, "")
	}
	for _, pat := range []string{"outlier", "outlier-mmax", "parallel", "duplicates", "chain"} {
		for j := 0; j < c.Pick(6, 40); j++ {
			exactCase(c, rng.Fork(), j, pat)
		}
	}
	metricReference(c, rng.Fork())
	sets := c.ArgInt("recall", c.Pick(2, 10))
	if sets > 0 {
		recallCase(c, NewRng(64), -1) // the known finding's witness, every run
	}
	for i := 0; i < sets; i++ {
		recallCase(c, rng.Fork(), i)
	}
}

func exactCase(c *Ctx, r *Rng, no int, pattern string) {
	M := 2 + r.Intn(15)
	if r.Intn(3) == 0 {
		M = 16
	}
	opts := []index.HnswOption{index.HnswM(M)}
	desc := fmt.Sprintf("M=%d", M)
	explicitMmax := false
	if r.Intn(5) < 2 || pattern == "outlier-mmax" {
		mm := 1 + r.Intn(M+4)
		if pattern == "outlier-mmax" {
			mm = 1 + r.Intn((M+1)/2)
		}
		opts = append(opts, index.HnswMmax(mm))
		desc += fmt.Sprintf(" Mmax=%d", mm)
		explicitMmax = mm < M
	}
	n := 1 + r.Intn(2*M+1)
	if pattern != "" || r.Intn(3) == 0 {
		n = 2*M + 1 - r.Intn(2)
	}
	ef := 1 + r.Intn(40)
	efc := 1 + r.Intn(220)
	opts = append(opts, index.HnswEf(ef), index.HnswEfConstruction(efc))
	algo := index.HnswSearchSimple
	if r.Intn(2) == 0 {
		algo = index.HnswSearchHeuristic
	}
	ext, keep := r.Intn(3) == 0, r.Intn(2) == 0
	opts = append(opts, index.HnswSearchAlgorithm(algo), index.HnswHeuristicExtendCandidates(ext), index.HnswHeuristicKeepPruned(keep))
	desc += fmt.Sprintf(" ef=%d efC=%d %s ext=%v keep=%v", ef, efc, algo, ext, keep)
	spn := r.Intn(3)
	if pattern == "parallel" {
		spn = 2
	}
	sp, spName := spaceByName(spn)
	dim := 1 + r.Intn(8)
	if spName == "cosine" && dim < 2 {
		dim = 2
	}
	// ---- points
	pts := make([]amath.Vector, n)
	kind := r.Intn(3)
	for i := range pts {
		v := make(amath.Vector, dim)
		for d := range v {
			switch kind {
			case 0: // small grid: ties and duplicates
				v[d] = float32(r.Intn(4))
			case 1:
				v[d] = float32(r.Norm())
			default:
				v[d] = float32(r.Intn(2000)-1000) / 16
			}
		}
		if spName == "cosine" { // avoid the zero vector (the metric is undefined there)
			zero := true
			for _, x := range v {
				if x != 0 {
					zero = false
				}
			}
			if zero {
				v[0] = 1
			}
		}
		pts[i] = v
	}
	switch pattern {
	case "outlier", "outlier-mmax": // a tight cluster and one far point inserted last
		for i := range pts {
			for d := range pts[i] {
				pts[i][d] = float32(r.Norm()) * 0.1
			}
			if spName == "cosine" {
				pts[i][0] += 1
			}
		}
		for d := range pts[n-1] {
			pts[n-1][d] = 50 + float32(r.Norm())
		}
		if spName == "cosine" {
			pts[n-1][0] = -50
		}
	case "parallel": // scaled copies: cosine distance 0 up to rounding
		for i := 0; i+1 < n; i += 2 {
			for d := range pts[i] {
				pts[i+1][d] = 3 * pts[i][d]
			}
		}
	case "duplicates":
		for i := range pts {
			copy(pts[i], pts[i%3])
		}
	case "chain": // points on a line, inserted from one end
		for i := range pts {
			for d := range pts[i] {
				pts[i][d] = 0
			}
			pts[i][0] = float32(i) + 1
		}
	}
	// ---- levels
	lv := make([]int, n)
	lk := r.Intn(4)
	anyUpper := false
	for i := range lv {
		switch lk {
		case 0:
			lv[i] = 0
		case 1:
			lv[i] = i % 4
		case 2:
			for lv[i] < 6 && r.Intn(3) == 0 {
				lv[i]++
			}
		default:
			lv[i] = 3 + r.Intn(3)
		}
		if lv[i] > 0 && i > 0 {
			anyUpper = true
		}
	}
	order := r.Perm(n)
	if pattern == "outlier" || pattern == "outlier-mmax" || pattern == "chain" {
		for i := range order {
			order[i] = i
		}
	}
	c.Begin(fmt.Sprintf("exact %s n=%d %s dim=%d pattern=%s levels=%d", desc, n, spName, dim, orDash(pattern), lk))
	c.OpLocal("points=%v order=%v levels=%v", pts, order, lv)
	h := index.NewHnsw(uint(dim), sp, opts...)
	ids := make([]uuid.UUID, n)
	byId := map[uuid.UUID]int{}
	failed := false
	for _, i := range order {
		ids[i] = rid(i + 1)
		byId[ids[i]] = i
		func() {
			defer func() {
				if p := recover(); p != nil {
					c.Violate("C07", "C07/insert-panics", fmt.Sprintf("Insert of item %d panicked: %v (%s, %s)", i, p, spName, desc), c.History())
					failed = true
				}
			}()
			if err := h.Insert(ids[i], pts[i], nil, lv[i]); err != nil {
				c.Violate("C07", "C07/insert-fails", fmt.Sprintf("Insert failed: %v", err), c.History())
				failed = true
			}
		}()
		if failed {
			break
		}
	}
	if failed {
		c.End()
		return
	}
	nq := 4
	for qi := 0; qi < nq; qi++ {
		q := make(amath.Vector, dim)
		switch r.Intn(3) {
		case 0:
			copy(q, pts[r.Intn(n)])
		case 1:
			p := pts[r.Intn(n)]
			for d := range q {
				q[d] = 0.7 * p[d]
			}
		default:
			for d := range q {
				q[d] = float32(r.Norm()) * 2
			}
		}
		if spName == "cosine" {
			zero := true
			for _, x := range q {
				if x != 0 {
					zero = false
				}
			}
			if zero {
				q[0] = 1
			}
		}
		if pattern == "outlier" || pattern == "outlier-mmax" {
			copy(q, pts[n-1])
		}
		k := 1 + r.Intn(n+3)
		if n > ef && k < n { // covered by the beam: n <= max(ef, k)
			k = n + r.Intn(3)
		}
		if qi == 0 {
			k = n
		}
		if qi == 1 && n <= ef { // the single nearest item, with the beam covering the collection
			k = 1
		}
		// brute force with the same metric
		row := make([]float32, n)
		bad := false
		for i := range pts {
			row[i] = sp.Distance(q, pts[i])
			if row[i] < 0 || row[i] != row[i] {
				c.Violate("C07", "C07/negative-distance", fmt.Sprintf("%s distance between %v and %v is %v: the index's queues take non-negative priorities only", spName, q, pts[i], row[i]), c.History())
				bad = true
			}
		}
		if bad {
			continue
		}
		bits := make([]string, n)
		for i := range row {
			bits[i] = fmt.Sprint(math.Float32bits(row[i]))
		}
		var res index.SearchResult
		var err error
		var pan interface{}
		func() {
			defer func() { pan = recover() }()
			res, err = h.Search(context.Background(), q, uint(k))
		}()
		if pan != nil || err != nil {
			c.Violate("C07", "C07/search-fails", fmt.Sprintf("Search(k=%d) on %d items: panic %v, error %v", k, n, pan, err), c.History())
			continue
		}
		c.Op("top %d %s", k, strings.Join(bits, " "))
		var got []string
		for _, it := range res {
			got = append(got, fmt.Sprint(math.Float32bits(it.Score)))
		}
		c.Res("%s", strings.TrimRight("scores "+strings.Join(got, " "), " "))
		// oracle
		sorted := append([]float32{}, row...)
		sort.Slice(sorted, func(a, b int) bool { return sorted[a] < sorted[b] })
		want := k
		if want > n {
			want = n
		}
		seen := map[uuid.UUID]bool{}
		okRes := len(res) == want
		for i, it := range res {
			j, stored := byId[it.Id]
			if !stored || seen[it.Id] || math.Float32bits(it.Score) != math.Float32bits(row[j]) || i >= len(sorted) || math.Float32bits(it.Score) != math.Float32bits(sorted[i]) {
				okRes = false
			}
			seen[it.Id] = true
		}
		if !okRes {
			var ws []string
			for i := 0; i < want; i++ {
				ws = append(ws, fmt.Sprint(sorted[i]))
			}
			var gs []string
			for _, it := range res {
				gs = append(gs, fmt.Sprintf("%d:%v", byId[it.Id], it.Score))
			}
			sig := "C07/not-exact"
			if len(res) < want {
				sig = "C07/items-missing"
			}
			c.Violate("C07", sig, fmt.Sprintf("%d items (<= 2M+1 = %d), %s, ef=%d, k=%d: Search returned [%s], the %d nearest by brute force have scores [%s]", n, 2*M+1, spName, ef, k, strings.Join(gs, " "), want, strings.Join(ws, " ")), c.History())
		}
	}
	if n >= 4 && (anyUpper || explicitMmax) {
		c.Nontrivial("exact")
	}
	c.End()
}

func recallCase(c *Ctx, r *Rng, no int) {
	dims := []int{8, 16, 32, 64}
	dim := dims[r.Intn(len(dims))]
	n := c.Pick(2000, 4000) + r.Intn(c.Pick(500, 2000))
	spNo := r.Intn(3)
	if no < 0 { // the recorded witness of the known finding C07/recall-below-floor/high-dimension
		dim, n, spNo = 64, 4000, 2
	}
	sp, spName := spaceByName(spNo)
	nq := c.Pick(100, 400)
	c.Begin(fmt.Sprintf("recall n=%d dim=%d %s queries=%d", n, dim, spName, nq))
	h := index.NewHnsw(uint(dim), sp)
	pts := make([]amath.Vector, n)
	for i := range pts {
		v := make(amath.Vector, dim)
		for d := range v {
			v[d] = float32(r.Norm())
		}
		pts[i] = v
		var id uuid.UUID
		id[0], id[1], id[2] = byte(i), byte(i>>8), byte(i>>16)
		id[15] = 0x5A
		if err := h.Insert(id, v, nil, h.RandomLevel()); err != nil {
			c.Violate("C07", "C07/insert-fails", err.Error(), c.History())
		}
	}
	hits, total := 0, 0
	for qi := 0; qi < nq; qi++ {
		q := make(amath.Vector, dim)
		for d := range q {
			q[d] = float32(r.Norm())
		}
		res, err := h.Search(context.Background(), q, 10)
		if err != nil {
			c.Violate("C07", "C07/search-fails", err.Error(), c.History())
			continue
		}
		type sc struct {
			i int
			d float32
		}
		all := make([]sc, n)
		for i := range pts {
			all[i] = sc{i, sp.Distance(q, pts[i])}
		}
		sort.Slice(all, func(a, b int) bool { return all[a].d < all[b].d })
		cut := all[9].d // ties at the boundary count as hits
		for _, it := range res {
			if it.Score <= cut {
				hits++
			}
		}
		total += 10
	}
	recall := float64(hits) / float64(total)
	c.OpLocal("mean recall@10 = %.4f", recall)
	c.Count(fmt.Sprintf("recall-bucket:%.2f", math.Floor(recall*20)/20))
	if recall < 0.8 {
		// The floor does not hold on the unchanged tree for high-dimensional random data: with the default
		// ef = 20, i.i.d. Gaussian points in 32 and more dimensions fall below it as the collection grows
		// (64 dimensions: 0.60 - 0.78 from 2000 items on; 32 dimensions: 0.74 - 0.83 from 3000 items on) —
		// a known finding of its own. Below 0.5 it is not that finding any more.
		sig := "C07/recall-below-floor"
		if dim >= 32 && recall >= 0.5 {
			sig = "C07/recall-below-floor/high-dimension"
		}
		c.Violate("C07", sig, fmt.Sprintf("mean recall@10 = %.3f over %d queries on %d random %d-dimensional points (%s, default parameters)", recall, nq, n, dim, spName), c.History())
	}
	c.Nontrivial("recall")
	c.End()
}

// metricReference: "the k nearest" means nearest by the dataset's metric. The exactness checks above rank
// with the same space.Distance the index uses, so a metric that is wrong in itself (all distances 1 for
// short vectors, say) would go unnoticed there. Here the metric the index is built on is compared with
// a float64 computation of the textbook formula, on vectors of ordinary, small (1e-3) and large (1e3)
// magnitude — all well inside float32's range.
func metricReference(c *Ctx, r *Rng) {
	c.Begin("metric vs float64 reference")
	defer c.End()
	n := 0
	for spn := 0; spn < 3; spn++ {
		sp, spName := spaceByName(spn)
		for _, scale := range []float64{1, 1e-3, 1e3} {
			for _, dim := range []int{2, 3, 8, 16, 33} {
				for rep := 0; rep < 6; rep++ {
					a, b := make(amath.Vector, dim), make(amath.Vector, dim)
					for i := range a {
						a[i], b[i] = float32(r.Norm()*scale), float32(r.Norm()*scale)
					}
					var ref, dot, na, nb float64
					for i := range a {
						x, y := float64(a[i]), float64(b[i])
						switch spName {
						case "euclidean":
							ref += (x - y) * (x - y)
						case "manhattan":
							ref += math.Abs(x - y)
						default:
							dot, na, nb = dot+x*y, na+x*x, nb+y*y
						}
					}
					tol := 0.0
					switch spName {
					case "euclidean":
						ref = math.Sqrt(ref)
						tol = 1e-4 * ref
					case "manhattan":
						tol = 1e-4 * ref
					default:
						if na == 0 || nb == 0 {
							continue
						}
						ref = math.Abs(1 - dot/math.Sqrt(na*nb))
						tol = 1e-4
					}
					got := float64(sp.Distance(a, b))
					n++
					if math.IsNaN(got) || math.Abs(got-ref) > tol {
						c.Violate("C07", "C07/metric-differs-from-reference", fmt.Sprintf("%s distance of two %d-dimensional vectors of magnitude %g: the index's metric returns %v, the formula gives %v (a=%v b=%v): the index ranks by something that is not the dataset's metric", spName, dim, scale, got, ref, a, b), c.History())
					}
				}
			}
		}
	}
	c.OpLocal("%d distances (3 metrics x magnitudes 1, 1e-3, 1e3 x dimensions 2..33) compared with a float64 computation of the formula", n)
	c.Nontrivial("metric-reference")
}
