package main

// Engine catalogue (C14): N simulated nodes over one scripted catalogue log. Random sequences of
// create / duplicate create / delete / delete of an absent id / add and remove partition replica.
// After every committed entry every node's listing (id, dimension, metric, partitions, replica
// lists) is compared with the Lean catalogue model and with every other node. At every cut of
// the log a snapshot is taken through the registered snapshot function and restored (a) into a
// fresh node, which then replays the suffix — restart from a compacted log — and (b) into a
// lagging member that still holds an older state (known finding D17). A fresh node replaying
// the whole log is the restart-and-replay case.

import (
	"context"
	"fmt"
	"sort"
	"strings"
	"time"

	"github.com/golang/protobuf/proto"
	pb "github.com/marekgalovic/anndb/protobuf"
	"github.com/marekgalovic/anndb/storage"
	uuid "github.com/satori/go.uuid"
)

func init() { register("catalogue", runCatalogue) }

var uuidNums = map[uuid.UUID]int{}

func unum(u uuid.UUID) int {
	if n, ok := uuidNums[u]; ok {
		return n
	}
	uuidNums[u] = len(uuidNums) + 1
	return uuidNums[u]
}

func listingOf(dm *storage.DatasetManager) string {
	var lines []string
	for _, d := range dm.VerifDatasets() {
		m := d.Meta()
		var ps []string
		for _, p := range m.GetPartitions() {
			ps = append(ps, fmt.Sprintf("%d:%s", unum(uuid.FromBytesOrNil(p.GetId())), u64s(p.GetNodeIds())))
		}
		lines = append(lines, fmt.Sprintf("%06d dim=%d sp=%d r=%d [%s]", unum(uuid.FromBytesOrNil(m.GetId())), m.GetDimension(), int(m.GetSpace()), m.GetReplicationFactor(), strings.Join(ps, ";")))
	}
	sort.Strings(lines)
	return strings.TrimRight("L "+strings.Join(lines, " | "), " ")
}

// the harness's own record of the acknowledged catalogue history (what every node must list)
type refPart struct {
	num   int
	nodes []uint64
}
type refDs struct {
	num, dim, sp, r int
	parts           []refPart
}

func refListing(ref map[int]*refDs) string {
	var lines []string
	for _, d := range ref {
		var ps []string
		for _, p := range d.parts {
			ps = append(ps, fmt.Sprintf("%d:%s", p.num, u64s(p.nodes)))
		}
		lines = append(lines, fmt.Sprintf("%06d dim=%d sp=%d r=%d [%s]", d.num, d.dim, d.sp, d.r, strings.Join(ps, ";")))
	}
	sort.Strings(lines)
	return strings.TrimRight("L "+strings.Join(lines, " | "), " ")
}

func waitApplied(cl *simCluster, n int) bool {
	return waitFor(5*time.Second, func() bool {
		for _, nd := range cl.nodes {
			if nd.group.Applied() < n {
				return false
			}
		}
		return true
	})
}

var readdNotLoaded int

type remRec struct {
	ds, pid uuid.UUID
	node    uint64
}

func runCatalogue(c *Ctx) {
	c.Stats.Rule = "random catalogue logs (create, duplicate create, delete, delete absent, add/remove partition replica) on 1-3 simulated nodes; listing of every node after every entry vs the Lean model; snapshot + restore into a fresh node at every cut followed by the suffix; fresh full replay; non-trivial = log with a replica-set change before a cut, or a delete; distinct = distinct log"
	rng := NewRng(c.Seed)
	nh := c.ArgInt("hist", c.Pick(12, 150))
	ctx := context.Background()
	for h := 0; h < nh; h++ {
		r := rng.Fork()
		N := 1 + r.Intn(3)
		c.Begin(fmt.Sprintf("catalogue N=%d", N))
		uuidNums = map[uuid.UUID]int{}
		cl := newSimCluster(N)
		var live []uuid.UUID // dataset ids believed to exist
		ref := map[int]*refDs{}
		var createEntries [][]byte
		var lastRem *remRec
		nOps := 4 + r.Intn(c.Pick(8, 16))
		if h < 2 {
			nOps = 10
		}
		applied := 0
		propose := func(data []byte) {
			cl.nodes[cl.ids[0]].group.Propose(ctx, data)
			applied++
			if !waitApplied(cl, applied) {
				c.Violate("C18", "C18/catalogue-apply-stalls", fmt.Sprintf("catalogue entry %d was not applied on every node within 5 s", applied), c.History())
			}
		}
		observe := func() {
			base := ""
			for i, id := range cl.ids {
				l := listingOf(cl.nodes[id].node.DatasetManager)
				if i == 0 {
					base = l
					c.Op("list")
					c.Res("%s", l)
					if want := refListing(ref); l != want {
						c.Violate("C14", "C14/listing-differs-from-history", fmt.Sprintf("node %d lists %q; the acknowledged history (creations, deletions, replica-set changes) gives %q", id, l, want), c.History())
					}
				} else if l != base {
					c.Violate("C14", "C14/nodes-disagree", fmt.Sprintf("after the same log node %d lists %q, node %d lists %q", cl.ids[0], base, id, l), c.History())
				}
			}
		}
		for op := 0; op < nOps; op++ {
			k := r.Intn(10)
			if h < 2 && len(live) > 0 {
				k = 9 // the first two histories are about replica-set changes
			}
			switch {
			case k < 4 || len(live) == 0: // create through the API of a random node
				via := cl.ids[r.Intn(N)]
				dim, parts, repl := uint32(1+r.Intn(4)), uint32(1+r.Intn(3)), uint32(1+r.Intn(2))
				ds, err := cl.nodes[via].node.DatasetManager.Create(ctx, &pb.Dataset{Dimension: dim, Space: pb.Space(r.Intn(3)), PartitionCount: parts, ReplicationFactor: repl})
				applied++
				waitApplied(cl, applied)
				if err != nil {
					c.Violate("C14", "C14/create-fails", "Create on a healthy cluster failed: "+err.Error(), c.History())
					continue
				}
				m := ds.Meta()
				var ps []string
				for _, p := range m.GetPartitions() {
					ps = append(ps, fmt.Sprintf("%d:%s", unum(uuid.FromBytesOrNil(p.GetId())), u64s(p.GetNodeIds())))
				}
				c.Op("create %d %d %d %d %s", unum(ds.VerifId()), dim, int(m.GetSpace()), repl, strings.Join(ps, ";"))
				c.Res("ok")
				live = append(live, ds.VerifId())
				rd := &refDs{num: unum(ds.VerifId()), dim: int(dim), sp: int(m.GetSpace()), r: int(repl)}
				for _, p := range m.GetPartitions() {
					rd.parts = append(rd.parts, refPart{unum(uuid.FromBytesOrNil(p.GetId())), append([]uint64{}, p.GetNodeIds()...)})
				}
				ref[rd.num] = rd
				cl.cat.mu.Lock()
				createEntries = append(createEntries, cl.cat.log[len(cl.cat.log)-1])
				cl.cat.mu.Unlock()
			case k < 5 && len(createEntries) > 0: // the same create entry again
				e := createEntries[r.Intn(len(createEntries))]
				var ch pb.DatasetManagerChange
				proto.Unmarshal(e, &ch)
				var d pb.Dataset
				proto.Unmarshal(ch.Data, &d)
				did := uuid.FromBytesOrNil(d.GetId())
				propose(e)
				exists := false
				for _, l := range live {
					if l == did {
						exists = true
					}
				}
				var ps []string
				for _, p := range d.GetPartitions() {
					ps = append(ps, fmt.Sprintf("%d:%s", unum(uuid.FromBytesOrNil(p.GetId())), u64s(p.GetNodeIds())))
				}
				c.Op("create %d %d %d %d %s", unum(did), d.GetDimension(), int(d.GetSpace()), d.GetReplicationFactor(), strings.Join(ps, ";"))
				if exists {
					c.Res("exists")
				} else {
					c.Res("ok")
					live = append(live, did)
					rd := &refDs{num: unum(did), dim: int(d.GetDimension()), sp: int(d.GetSpace()), r: int(d.GetReplicationFactor())}
					for _, p := range d.GetPartitions() {
						rd.parts = append(rd.parts, refPart{unum(uuid.FromBytesOrNil(p.GetId())), append([]uint64{}, p.GetNodeIds()...)})
					}
					ref[rd.num] = rd
				}
			case k < 7: // delete (sometimes an absent id)
				var id uuid.UUID
				absent := r.Intn(4) == 0
				if absent {
					id = uuid.NewV4()
				} else {
					i := r.Intn(len(live))
					id = live[i]
					live = append(live[:i], live[i+1:]...)
				}
				via := cl.ids[r.Intn(N)]
				err := cl.nodes[via].node.DatasetManager.Delete(ctx, id)
				applied++
				waitApplied(cl, applied)
				c.Op("delete %d", unum(id))
				if err == nil {
					delete(ref, unum(id))
					c.Res("ok")
				} else if strings.Contains(err.Error(), "not found") {
					c.Res("notfound")
				} else {
					c.Res("error %v", err)
				}
				c.Nontrivial("delete")
			default: // replica-set change
				id := live[r.Intn(len(live))]
				d := cl.dataset(cl.ids[0], id)
				pi := r.Intn(d.VerifPartitionCount())
				pid := d.VerifPartitionAt(pi).Id()
				node := cl.ids[r.Intn(N)]
				typ := pb.DatasetPartitionNodesChangeType_DatasetPartitionNodesChangeAddNode
				name := "addnode"
				if r.Intn(2) == 0 {
					typ = pb.DatasetPartitionNodesChangeType_DatasetPartitionNodesChangeRemoveNode
					name = "remnode"
					// prefer a node that does host the partition
					if hosts := d.VerifPartitionAt(pi).NodeIds(); len(hosts) > 0 && r.Intn(3) > 0 {
						node = hosts[r.Intn(len(hosts))]
					}
				}
				// a replica that was taken away comes back to the same partition (it unloaded its raft group and
				// wiped that group's log in between)
				if lastRem != nil && (h < 2 || r.Intn(2) == 0) {
					stillThere := false
					for _, l := range live {
						if l == lastRem.ds {
							stillThere = true
						}
					}
					if stillThere {
						id, pid, node = lastRem.ds, lastRem.pid, lastRem.node
						typ, name = pb.DatasetPartitionNodesChangeType_DatasetPartitionNodesChangeAddNode, "addnode"
						c.Nontrivial("replica-removed-and-added-again")
					}
					lastRem = nil
				} else if name == "remnode" {
					lastRem = &remRec{id, pid, node}
				}
				chData, _ := proto.Marshal(&pb.DatasetPartitionNodesChange{Type: typ, DatasetId: id.Bytes(), PartitionId: pid.Bytes(), NodeId: node})
				data, _ := proto.Marshal(&pb.DatasetManagerChange{Type: pb.DatasetManagerChangeType_DatasetManagerUpdatePartitionNodes, NotificationId: uuid.NewV4().Bytes(), Data: chData})
				propose(data)
				c.Op("%s %d %d %d", name, unum(id), unum(pid), node)
				c.Res("ok")
				if rd := ref[unum(id)]; rd != nil {
					for i := range rd.parts {
						if rd.parts[i].num != unum(pid) {
							continue
						}
						if name == "addnode" {
							rd.parts[i].nodes = append(rd.parts[i].nodes, node)
						} else {
							var keep []uint64
							for _, x := range rd.parts[i].nodes {
								if x != node {
									keep = append(keep, x)
								}
							}
							rd.parts[i].nodes = keep
						}
					}
				}
				c.Nontrivial("replica-set-change")
				// a node that is (again) listed as a replica has the partition's raft group loaded
				if name == "addnode" {
					if dn := cl.dataset(node, id); dn != nil {
						for k := 0; k < dn.VerifPartitionCount(); k++ {
							if p := dn.VerifPartitionAt(k); p.Id() == pid {
								loaded := waitFor(3*time.Second, func() bool { return p.HasRaft() })
								c.Count(fmt.Sprintf("addnode-raft-loaded:%v", loaded))
								if !loaded {
									readdNotLoaded++
									c.Violate("C18", "C18/replica-listed-but-not-loaded", fmt.Sprintf("node %d is listed as a replica of partition %d (every member lists it) but has no raft group for it 3 s after the change was applied: the replica never serves (a node that had the partition before unloaded its group and deleted the group's log; loading it again fails)", node, unum(pid)), c.History())
								}
							}
						}
					}
				}
			}
			observe()
		}
		// ---- restart and replay; snapshot + suffix at every cut
		cl.cat.mu.Lock()
		log := append([][]byte{}, cl.cat.log...)
		cl.cat.mu.Unlock()
		final := listingOf(cl.nodes[cl.ids[0]].node.DatasetManager)
		// prefixes' snapshots are produced by a scratch node replaying the log
		scratch := newSimCluster(1)
		snaps := make([][]byte, len(log)+1)
		for i := 0; i <= len(log); i++ {
			sn, err := scratch.nodes[1].group.snapFn()
			if err != nil {
				c.Violate("C14", "C14/snapshot-error", err.Error(), c.History())
			}
			snaps[i] = append([]byte{}, sn...)
			if i < len(log) {
				scratch.nodes[1].group.processFn(log[i])
			}
		}
		if got := listingOf(scratch.nodes[1].node.DatasetManager); got != final {
			c.Violate("C14", "C14/replay-differs", fmt.Sprintf("a fresh node replaying the whole catalogue log lists %q, the running nodes %q", got, final), c.History())
		}
		scratch.Close()
		cuts := []int{0, len(log)}
		for i := 0; i < c.Pick(2, 6); i++ {
			cuts = append(cuts, r.Intn(len(log)+1))
		}
		if c.Thorough() {
			cuts = nil
			for i := 0; i <= len(log); i++ {
				cuts = append(cuts, i)
			}
		}
		for _, cut := range cuts {
			fresh := newSimCluster(1)
			if err := fresh.nodes[1].group.restoreFn(snaps[cut]); err != nil {
				c.Violate("C14", "C14/restore-error", fmt.Sprintf("restoring the catalogue snapshot taken after %d entries failed: %v", cut, err), c.History())
			}
			for i := cut; i < len(log); i++ {
				fresh.nodes[1].group.processFn(log[i])
			}
			if got := listingOf(fresh.nodes[1].node.DatasetManager); got != final {
				c.Violate("C14", "C14/snapshot-cut-differs", fmt.Sprintf("snapshot after %d entries + replay of the rest lists %q, full replay lists %q", cut, got, final), c.History())
			}
			fresh.Close()
			c.Count("cut")
			// a lagging member: it applied the entries up to the cut, then receives the leader's
			// snapshot of the whole log (it may still list datasets deleted since, and old replica lists)
			lagging := newSimCluster(1)
			for i := 0; i < cut; i++ {
				lagging.nodes[1].group.processFn(log[i])
			}
			before := listingOf(lagging.nodes[1].node.DatasetManager)
			if err := lagging.nodes[1].group.restoreFn(snaps[len(log)]); err != nil {
				c.Violate("C14", "C14/restore-error", fmt.Sprintf("installing the final catalogue snapshot on a member that applied %d entries failed: %v", cut, err), c.History())
			}
			if got := listingOf(lagging.nodes[1].node.DatasetManager); got != final {
				c.Violate("C14", "C14/snapshot-onto-stale-catalogue", fmt.Sprintf("a member that applied %d of the %d entries (listing %q) and then installs the snapshot of the whole log lists %q; the snapshotted catalogue is %q", cut, len(log), before, got, final), c.History())
			}
			if before != final {
				c.Nontrivial("lagging-member-installs-snapshot")
			}
			lagging.Close()
		}
		cl.Close()
		c.End()
	}
	// corpus: D17 — a lagging member installs a snapshot onto a non-empty catalogue
	{
		c.Begin("corpus-D17 lagging member installs a snapshot")
		ctx := context.Background()
		cl := newSimCluster(1)
		old, _ := cl.nodes[1].node.DatasetManager.Create(ctx, &pb.Dataset{Dimension: 2, Space: pb.Space_Euclidean, PartitionCount: 1, ReplicationFactor: 1})
		lag := newSimCluster(1)
		cl.cat.mu.Lock()
		e0 := cl.cat.log[0]
		cl.cat.mu.Unlock()
		lag.nodes[1].group.processFn(e0) // the lagging member saw only the first create
		cl.nodes[1].node.DatasetManager.Delete(ctx, old.VerifId())
		cl.nodes[1].node.DatasetManager.Create(ctx, &pb.Dataset{Dimension: 3, Space: pb.Space_Cosine, PartitionCount: 1, ReplicationFactor: 1})
		waitApplied(cl, 3)
		sn, _ := cl.nodes[1].group.snapFn()
		lag.nodes[1].group.restoreFn(sn)
		c.OpLocal("leader: create A; delete A; create B; snapshot. lagging member: create A; install snapshot")
		want, got := listingOf(cl.nodes[1].node.DatasetManager), listingOf(lag.nodes[1].node.DatasetManager)
		// the model plays the lagging member: it holds A and installs the leader's catalogue
		{
			m := old.Meta()
			var ps []string
			for _, p := range m.GetPartitions() {
				ps = append(ps, fmt.Sprintf("%d:%s", unum(uuid.FromBytesOrNil(p.GetId())), u64s(p.GetNodeIds())))
			}
			c.Op("create %d %d %d %d %s", unum(old.VerifId()), m.GetDimension(), int(m.GetSpace()), m.GetReplicationFactor(), strings.Join(ps, ";"))
			c.Res("ok")
			c.Op("install %s", strings.ReplaceAll(strings.TrimPrefix(want, "L "), " ", "_"))
			c.Res("%s", got)
		}
		if got != want {
			c.Violate("C14", "C14/snapshot-onto-stale-catalogue", fmt.Sprintf("a member that still lists a dataset deleted before the snapshot installs the snapshot and lists %q; the snapshotted catalogue is %q", got, want), c.History())
		}
		lag.Close()
		cl.Close()
		c.End()
	}
}
