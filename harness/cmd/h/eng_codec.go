package main

// Engine codec (C08): for index states reached by random histories (empty, after removals,
// after entry hand-over, exotic metadata: nil / empty / many keys / 255-byte keys / long values /
// non-UTF8 bytes), with and without header:
//   - the real Save output is decoded by the Lean model of the format: it must consume every
//     byte, re-encode to the same bytes, satisfy the explicit well-formedness bounds, and show
//     the same view (ids, vector bits, metadata, levels, live links with scores, entry id) as
//     the dumped state;
//   - oracle: the real Load of those bytes through fragmenting readers (whole, one byte at a
//     time, halves, random chunks, data-with-EOF), into fresh and used indexes, followed by a
//     sentinel tail, must reproduce the state, its counters, and leave exactly the tail unread;
//   - truncated streams: model decode and real Load must agree on accept / reject.

import (
	"bytes"
	"encoding/hex"
	"fmt"
	"io"
	"os"
	"os/exec"
	"path/filepath"
	"sort"
	"strings"
	"syscall"
	"testing/iotest"
	"time"

	"github.com/marekgalovic/anndb/index"
	amath "github.com/marekgalovic/anndb/math"
	uuid "github.com/satori/go.uuid"
)

func init() { register("codec", runCodec) }

func codecView(d index.VerifDump) []string {
	if len(d.Vertices) == 0 {
		return []string{"EMPTY"}
	}
	out := []string{fmt.Sprintf("ep=%s n=%d", hex.EncodeToString(d.EntryId[:]), len(d.Vertices))}
	for _, v := range d.Vertices { // already sorted by id bytes
		var vec []string
		for _, x := range v.Vector {
			vec = append(vec, fmt.Sprint(f32bits(x)))
		}
		ks := make([]string, 0, len(v.Metadata))
		for k := range v.Metadata {
			ks = append(ks, k)
		}
		sort.Strings(ks)
		var md []string
		for _, k := range ks {
			md = append(md, hex.EncodeToString([]byte(k))+":"+hex.EncodeToString([]byte(v.Metadata[k])))
		}
		var lv []string
		for l := 0; l <= v.Level && l < len(v.Edges); l++ {
			var ss []string
			for _, e := range v.Edges[l] { // sorted by id
				if !e.Deleted {
					ss = append(ss, fmt.Sprintf("%s/%d", hex.EncodeToString(e.Id[:]), f32bits(e.Score)))
				}
			}
			lv = append(lv, strings.Join(ss, ","))
		}
		out = append(out, strings.TrimRight(fmt.Sprintf("V %s L%d vec=%s md=%s | %s", hex.EncodeToString(v.Id[:]), v.Level, strings.Join(vec, ","), strings.Join(md, ";"), strings.Join(lv, " | ")), " "))
	}
	return out
}

type chunkReader struct {
	r   io.Reader
	rng *Rng
}

func (c *chunkReader) Read(p []byte) (int, error) {
	if len(p) == 0 {
		return 0, nil
	}
	n := 1 + c.rng.Intn(len(p))
	if c.rng.Intn(8) == 0 {
		n = 1
	}
	return c.r.Read(p[:n])
}

func exoticMetadata(r *Rng) index.Metadata {
	switch r.Intn(30) {
	case 0:
		return nil
	case 1:
		return index.Metadata{}
	case 2: // many keys
		m := index.Metadata{}
		for i, n := 0, 20+r.Intn(60); i < n; i++ {
			m[fmt.Sprintf("key-%d", i)] = fmt.Sprint(r.Intn(1000))
		}
		return m
	case 3: // longest legal key, long value
		return index.Metadata{strings.Repeat("k", 255): strings.Repeat("v", 300+r.Intn(900)), "": ""}
	case 4: // non-UTF8 bytes
		return index.Metadata{string([]byte{0xff, 0xfe, 0x00, 0x80}): string([]byte{0x00, 0xc3, 0x28, 0xff}), "ok": "\x00\x01"}
	case 5: // longest legal value
		return index.Metadata{"big": strings.Repeat("z", 65535)}
	case 6, 7, 8:
		return nil
	case 9, 10:
		return index.Metadata{}
	case 11:
		return index.Metadata{string([]byte{0xff, 0x00}): string([]byte{0x80})}
	}
	m := index.Metadata{}
	for j, n := 0, r.Intn(4); j < n; j++ {
		m[fmt.Sprintf("k%d", r.Intn(5))] = strings.Repeat("v", r.Intn(40))
	}
	return m
}

func runCodec(c *Ctx) {
	c.Stats.Rule = "index states reached by random insert/remove histories (dims 1-4, M in {1,2,3,16}, levels 0-3, 3 metrics, metadata: nil/empty/many keys/255-byte key/65535-byte value/non-UTF8), saved with and without header; each saved stream is model-decoded and loaded back through 5 reader kinds into fresh and used targets; non-trivial = state with removals and a tombstoned link target, an entry hand-over, exotic metadata, or the empty state after use; distinct = distinct history"
	rng := NewRng(c.Seed)
	nStates := c.ArgInt("states", c.Pick(120, 2500))
	// corpus: metadata at and beyond the format's length fields (D5, repaired: the key length is
	// written as a uint8, the value length and the entry count as a uint16). Metadata that fits must
	// be accepted and round-trip; metadata that does not must be refused on insert and on an update
	// whose merged metadata would not fit (the item stays) — in either case the snapshot of the
	// reached state loads back to the same state.
	manyKeys := func(n int) index.Metadata {
		m := index.Metadata{}
		for i := 0; i < n; i++ {
			m[fmt.Sprintf("k%d", i)] = ""
		}
		return m
	}
	for _, w := range []struct {
		name string
		md   index.Metadata
		fits bool
	}{
		{"key-255-bytes", index.Metadata{strings.Repeat("k", 255): "v"}, true},
		{"key-256-bytes", index.Metadata{strings.Repeat("k", 256): "v"}, false},
		{"key-300-bytes", index.Metadata{strings.Repeat("k", 300): "v"}, false},
		{"value-65535-bytes", index.Metadata{"k": strings.Repeat("v", 65535)}, true},
		{"value-65536-bytes", index.Metadata{"k": strings.Repeat("v", 65536)}, false},
		{"value-70000-bytes", index.Metadata{"k": strings.Repeat("v", 70000)}, false},
		{"65535-entries", manyKeys(65535), true},
		{"65536-entries", manyKeys(65536), false},
	} {
		c.Begin("corpus-D5-" + w.name)
		sp, _ := newSpace(0)
		h := index.NewHnsw(2, sp)
		err := h.Insert(rid(1), amath.Vector{1, 2}, w.md, 0)
		h.Insert(rid(2), amath.Vector{3, 4}, nil, 0)
		c.OpLocal("insert id 1 with metadata %s -> %v; insert id 2; save; load", w.name, err)
		if w.fits && err != nil {
			c.Violate("C08", "C08/metadata-refused", fmt.Sprintf("an item with %s fits the snapshot format but was refused: %v", w.name, err), c.History())
		}
		var buf bytes.Buffer
		h.Save(&buf, false)
		// the Load runs in a child process with an address-space limit: a desynchronised stream can
		// make Load allocate by a garbage count, which the Go runtime answers with an unrecoverable
		// "out of memory" fatal error
		res := childLoad(c, buf.Bytes(), 2, false, codecView(h.VerifDump()))
		if res != "same" {
			c.Violate("C08", "C08/metadata-length-truncation", fmt.Sprintf("an item with %s is accepted (insert answered %v), but the snapshot of that state cannot be loaded back (%s): length fields truncate", w.name, err, res), c.History())
		}
		c.Nontrivial("metadata-at-format-limits")
		c.End()
	}
	for s := 0; s < nStates; s++ {
		r := rng.Fork()
		dim := 1 + r.Intn(4)
		sp, spName := newSpace(r.Intn(3))
		ms := []int{1, 2, 3, 16}
		g := hnswCfg{m: ms[r.Intn(4)], ef: 1 + r.Intn(30), efC: 1 + r.Intn(60), heur: r.Intn(2) == 0, keep: true}
		g.mMax, g.mMax0 = g.m, 2*g.m
		g.ext = g.heur && r.Intn(3) == 0
		h := index.NewHnsw(uint(dim), sp, g.options()...)
		var ids []uuid.UUID
		for i := 0; i < 14; i++ {
			var u uuid.UUID
			for j := range u {
				u[j] = byte(r.U64())
			}
			ids = append(ids, u)
		}
		c.Begin(fmt.Sprintf("state %s dim=%d M=%d", spName, dim, g.m))
		n := r.Intn(45)
		if s%17 == 0 {
			n = 0 // never used
		}
		removals, exotic := 0, false
		for i := 0; i < n; i++ {
			id := ids[r.Intn(len(ids))]
			if r.Intn(3) == 0 {
				d0 := h.VerifDump()
				if h.Remove(id) == nil {
					removals++
					if d0.HasEntry && d0.EntryId == id {
						c.Nontrivial("entry-handover")
					}
				}
				c.OpLocal("rem %s", hex.EncodeToString(id[:4]))
				continue
			}
			v := make(amath.Vector, dim)
			for j := range v {
				v[j] = float32(r.Norm())
			}
			md := exoticMetadata(r)
			if len(md) > 4 || md == nil {
				exotic = true
			}
			h.Insert(id, v, md, r.Intn(4))
			c.OpLocal("ins %s lvl md=%d", hex.EncodeToString(id[:4]), len(md))
		}
		if s%11 == 0 { // empty after use
			for _, id := range ids {
				h.Remove(id)
			}
			c.OpLocal("remove-all")
			c.Nontrivial("empty-after-use")
		}
		if removals > 0 {
			c.Nontrivial("after-removals")
		}
		if exotic {
			c.Nontrivial("exotic-metadata")
		}
		d := h.VerifDump()
		view := codecView(d)
		for _, header := range []bool{false, true} {
			var buf bytes.Buffer
			if err := h.Save(&buf, header); err != nil {
				c.Violate("C08", "C08/save-error", "Save failed: "+err.Error(), c.History())
				continue
			}
			data := append([]byte{}, buf.Bytes()...)
			hx := hex.EncodeToString(data)
			c.Op("bytes %d %d %s", b2i(header), dim, hx)
			c.cur[len(c.cur)-1] = fmt.Sprintf("bytes %d %d <%d bytes>", b2i(header), dim, len(data))
			c.Res("rest=0 reencode=true wf=true hdim=%d", dim)
			for _, l := range view {
				c.Res("%s", l)
			}
			// ---- oracle: Load(Save(s)) = s for every reader and target
			tail := []byte("TAILTAIL")
			for kind := 0; kind < 5; kind++ {
				for _, used := range []bool{false, true} {
					src := append(append([]byte{}, data...), tail...)
					withTail := len(d.Vertices) > 0
					if !withTail {
						src = append([]byte{}, data...)
					}
					under := bytes.NewReader(src)
					var rd io.Reader = under
					kname := "whole"
					switch kind {
					case 1:
						rd, kname = iotest.OneByteReader(under), "one-byte"
					case 2:
						rd, kname = iotest.HalfReader(under), "half"
					case 3:
						rd, kname = &chunkReader{under, r.Fork()}, "random-chunks"
					case 4:
						rd, kname = iotest.DataErrReader(iotest.OneByteReader(under)), "data-with-eof"
					}
					tgt := index.NewHnsw(uint(dim), sp, g.options()...)
					if used {
						for i := 0; i < 5; i++ {
							v := make(amath.Vector, dim)
							v[0] = float32(i) + 0.5
							tgt.Insert(ids[(i*3)%len(ids)], v, index.Metadata{"stale": "1"}, i%2)
						}
						tgt.Insert(uuid.NewV4(), make(amath.Vector, dim), nil, 0)
					}
					var lerr error
					where := fmt.Sprintf("reader=%s used=%v header=%v", kname, used, header)
					pan := c.Guard(20*time.Second, "C08", "C08/load-own-output-stalls", "Load of the index's own Save output does not terminate ("+where+")", func() {
						lerr = tgt.Load(rd, header)
					})
					if pan != nil || lerr != nil {
						c.Violate("C08", "C08/load-own-output-fails", fmt.Sprintf("Load of the index's own Save output failed (%s): err=%v panic=%v", where, lerr, pan), c.History())
						continue
					}
					d2 := tgt.VerifDump()
					if strings.Join(codecView(d2), "\n") != strings.Join(view, "\n") {
						c.Violate("C08", "C08/state-differs", fmt.Sprintf("state after Load differs from the saved state (%s)", where), c.History())
					}
					if d2.Len != d.Len || d2.BytesSize != d.BytesSize || len(d2.Vertices) != len(d.Vertices) {
						c.Violate("C08", "C08/stale-counters", fmt.Sprintf("after Load: Len=%d bytes=%d items=%d, saved state: Len=%d bytes=%d items=%d (%s)", d2.Len, d2.BytesSize, len(d2.Vertices), d.Len, d.BytesSize, len(d.Vertices), where), c.History())
					}
					if d2.HasEntry && (!d2.EntryStored || d2.EntryDeleted) {
						c.Violate("C08", "C08/entry-not-restored", "entry point after Load is not a stored vertex ("+where+")", c.History())
					}
					if withTail && kind != 4 && under.Len() != len(tail) {
						c.Violate("C08", "C08/consumption", fmt.Sprintf("Load left %d bytes unread, %d were appended after the snapshot (%s)", under.Len(), len(tail), where), c.History())
					}
				}
			}
			// ---- truncated streams: model and Load agree on accept / reject
			if len(data) > 0 {
				for t := 0; t < 3; t++ {
					cut := r.Intn(len(data))
					tr := data[:cut]
					c.Op("trunc %d %d %s", b2i(header), dim, hex.EncodeToString(tr))
					c.cur[len(c.cur)-1] = fmt.Sprintf("trunc %d %d <first %d of %d bytes>", b2i(header), dim, cut, len(data))
					tgt := index.NewHnsw(uint(dim), sp, g.options()...)
					var lerr error
					pan := c.Guard(20*time.Second, "C08", "C08/load-truncated-stalls", "Load of a truncated snapshot does not terminate", func() {
						lerr = tgt.Load(bytes.NewReader(tr), header)
					})
					switch {
					case pan != nil:
						c.Res("load panic %v", pan)
					case lerr != nil:
						c.Res("load error")
					default:
						c.Res("load ok")
					}
				}
			}
		}
		c.End()
	}
}

// childLoad loads a snapshot in a child process (address space limited to 12 GiB, 60 s) and
// compares the resulting view with `want`: "same", "differs", "error: ...", or "process died: ...".
func childLoad(c *Ctx, data []byte, dim int, header bool, want []string) string {
	f := filepath.Join(c.Out, fmt.Sprintf("child-%d.bin", len(data)))
	os.WriteFile(f, data, 0644)
	defer os.Remove(f)
	cmd := exec.Command(os.Args[0], "child", "-seed", "0", "load", f, fmt.Sprint(dim), fmt.Sprint(b2i(header)))
	var out, errb bytes.Buffer
	cmd.Stdout, cmd.Stderr = &out, &errb
	if err := cmd.Start(); err != nil {
		return "error: cannot start child: " + err.Error()
	}
	done := make(chan error, 1)
	go func() { done <- cmd.Wait() }()
	select {
	case err := <-done:
		if err != nil {
			first := strings.SplitN(errb.String(), "\n", 2)[0]
			return "process died: " + first
		}
	case <-time.After(60 * time.Second):
		cmd.Process.Kill()
		return "process stalled for 60 s"
	}
	got := strings.TrimSpace(out.String())
	if strings.HasPrefix(got, "error") {
		return got
	}
	if got == strings.Join(want, "\n") {
		return "same"
	}
	return "differs"
}

func init() {
	childHandlers["load"] = func(args []string) {
		var lim syscall.Rlimit
		lim.Cur, lim.Max = 12<<30, 12<<30
		syscall.Setrlimit(syscall.RLIMIT_AS, &lim)
		data, _ := os.ReadFile(args[0])
		var dim, hdr int
		fmt.Sscan(args[1], &dim)
		fmt.Sscan(args[2], &hdr)
		sp, _ := newSpace(0)
		h := index.NewHnsw(uint(dim), sp)
		if err := h.Load(bytes.NewReader(data), hdr == 1); err != nil {
			fmt.Println("error: " + err.Error())
			return
		}
		fmt.Println(strings.Join(codecView(h.VerifDump()), "\n"))
	}
}
