package main

// Engine kill9 (C03): a real operating-system process running the full storage stack of one node
// over a Badger database on disk executes a deterministic write script (derived from the seed),
// reporting every acknowledgement on its standard output; the parent kills it with SIGKILL at an
// arbitrary instant (no cooperation, no boundary: mid-batch, mid-fsync, mid-apply). A second
// process is started over the same directory, replays the catalogue and the partitions' raft logs
// and prints what it holds. The recovered contents must be the acknowledged history, optionally
// extended by the one write that was in flight (Lean driver `recovery`). This complements the
// crash engine, whose crash points are exact but sit at the granularity of log-store calls.

import (
	"bufio"
	"context"
	"encoding/binary"
	"fmt"
	"io"
	"os"
	"os/exec"
	"path/filepath"
	"strconv"
	"strings"
	"time"

	pb "github.com/marekgalovic/anndb/protobuf"
	uuid "github.com/satori/go.uuid"
)

func init() {
	register("kill9", runKill9)
	childHandlers["kill9-writer"] = childKill9Writer
	childHandlers["kill9-reader"] = childKill9Reader
}

// the catalogue group of the simulation lives in memory: a process that is to be restarted keeps
// a copy of the catalogue log on disk (length-prefixed entries), written before the entry is applied
func appendCatalogueFile(dir string, e []byte) {
	f, err := os.OpenFile(filepath.Join(dir, "catalogue.log"), os.O_CREATE|os.O_WRONLY|os.O_APPEND, 0644)
	if err != nil {
		panic(err)
	}
	var l [4]byte
	binary.BigEndian.PutUint32(l[:], uint32(len(e)))
	f.Write(l[:])
	f.Write(e)
	f.Sync()
	f.Close()
}

func readCatalogueFile(dir string) [][]byte {
	f, err := os.Open(filepath.Join(dir, "catalogue.log"))
	if err != nil {
		return nil
	}
	defer f.Close()
	var out [][]byte
	for {
		var l [4]byte
		if _, err := io.ReadFull(f, l[:]); err != nil {
			return out
		}
		b := make([]byte, binary.BigEndian.Uint32(l[:]))
		if _, err := io.ReadFull(f, b); err != nil {
			return out
		}
		out = append(out, b)
	}
}

func kill9Script(seed uint64, n int) []crashOp {
	return genCrashScript(NewRng(seed*77+5), n)
}

func doCrashOp(ctx context.Context, n *simNode, dsId uuid.UUID, o *crashOp) error {
	switch o.kind {
	case "ins":
		_, err := n.dmSrv.Insert(ctx, &pb.InsertRequest{DatasetId: dsId.Bytes(), Id: rid(o.ids[0]).Bytes(), Value: vecOf(o.vec), Metadata: mdOf(o.md)})
		return err
	case "upd":
		_, err := n.dmSrv.Update(ctx, &pb.UpdateRequest{DatasetId: dsId.Bytes(), Id: rid(o.ids[0]).Bytes(), Value: vecOf(o.vec), Metadata: mdOf(o.md)})
		return err
	case "del":
		_, err := n.dmSrv.Remove(ctx, &pb.RemoveRequest{DatasetId: dsId.Bytes(), Id: rid(o.ids[0]).Bytes()})
		return err
	case "bins":
		var items []*pb.BatchItem
		for _, id := range o.ids {
			items = append(items, &pb.BatchItem{Id: rid(id).Bytes(), Value: vecOf(o.vec), Metadata: mdOf(o.md)})
		}
		_, err := n.dmSrv.BatchInsert(ctx, &pb.BatchRequest{DatasetId: dsId.Bytes(), Items: items})
		return err
	case "bdel":
		var items []*pb.BatchItem
		for _, id := range o.ids {
			items = append(items, &pb.BatchItem{Id: rid(id).Bytes()})
		}
		_, err := n.dmSrv.BatchRemove(ctx, &pb.BatchRequest{DatasetId: dsId.Bytes(), Items: items})
		return err
	case "snap":
		d, _ := n.node.DatasetManager.Get(dsId)
		if d != nil {
			for pi := 0; pi < d.VerifPartitionCount(); pi++ {
				if g := d.VerifPartitionAt(pi).Raft(); g != nil {
					g.VerifSnapshotNow()
				}
			}
		}
		return nil
	}
	return nil
}

// writer: kill9-writer <dir> <seed> <nops>
func childKill9Writer(args []string) {
	dir := args[0]
	seed, _ := strconv.ParseUint(args[1], 10, 64)
	nops, _ := strconv.Atoi(args[2])
	cl := newSimClusterAt(1, dir)
	n := cl.nodes[1]
	// keep the catalogue on disk: every entry is written to the file before it is applied
	cl.cat.mu.Lock()
	for _, e := range cl.cat.log {
		appendCatalogueFile(dir, e)
	}
	cl.cat.mu.Unlock()
	ds, err := n.node.DatasetManager.Create(context.Background(), &pb.Dataset{Dimension: 2, Space: pb.Space_Euclidean, PartitionCount: 1, ReplicationFactor: 1})
	if err != nil {
		fmt.Println("SETUP-FAILED", err)
		os.Exit(4)
	}
	cl.cat.mu.Lock()
	for _, e := range cl.cat.log {
		appendCatalogueFile(dir, e)
	}
	cl.cat.mu.Unlock()
	dsId := ds.VerifId()
	cl.injectClients(dsId)
	ok := waitFor(20*time.Second, func() bool { return ds.VerifPartitionAt(0).HasRaft() })
	if ok {
		ds.VerifPartitionAt(0).Raft().VerifCampaign()
		ok = waitFor(20*time.Second, func() bool { return ds.VerifPartitionAt(0).Raft().VerifStatus().Lead != 0 })
	}
	if !ok {
		fmt.Println("SETUP-FAILED no leader")
		os.Exit(4)
	}
	fmt.Println("READY", dsId.String())
	os.Stdout.Sync()
	script := kill9Script(seed, nops)
	for i := range script {
		ctx, cancel := context.WithTimeout(context.Background(), 3*time.Second)
		err := doCrashOp(ctx, n, dsId, &script[i])
		cancel()
		definite := err == nil || strings.Contains(err.Error(), "already exists") || strings.Contains(err.Error(), "not found")
		if !definite {
			fmt.Println("UNANSWERED", i, err)
			os.Stdout.Sync()
			break
		}
		fmt.Println("ACK", i)
		os.Stdout.Sync()
	}
	fmt.Println("SCRIPT-END")
	os.Stdout.Sync()
	time.Sleep(time.Hour) // wait for the kill
}

// reader: kill9-reader <dir> <datasetId>
func childKill9Reader(args []string) {
	dir := args[0]
	dsId := uuid.FromStringOrNil(args[1])
	cl := newSimClusterAt(1, dir)
	n := cl.nodes[1]
	log := readCatalogueFile(dir)
	for _, e := range log {
		n.group.inbox <- e
	}
	if !waitFor(30*time.Second, func() bool { return n.group.Applied() >= len(log) }) {
		fmt.Println("RESTART catalogue-replay-stalls")
		os.Exit(6)
	}
	if ps := n.group.Panics(); len(ps) > 0 {
		fmt.Println("RESTART catalogue-replay-panicked", ps[0])
		os.Exit(7)
	}
	d, err := n.node.DatasetManager.Get(dsId)
	if err != nil {
		fmt.Println("RESTART dataset-missing", len(log))
		os.Exit(8)
	}
	cl.injectClients(dsId)
	if !waitFor(30*time.Second, func() bool { return d.VerifPartitionAt(0).HasRaft() }) {
		fmt.Println("RESTART raft-not-loaded")
		os.Exit(9)
	}
	d.VerifPartitionAt(0).Raft().VerifCampaign()
	// replay: wait until the node leads its group again and what it holds has stopped changing
	waitFor(30*time.Second, func() bool { return d.VerifPartitionAt(0).Raft().VerifStatus().Lead != 0 })
	last, stable := "", 0
	waitFor(30*time.Second, func() bool {
		s, _ := contentsOf(cl, 1, dsId)
		st := d.VerifPartitionAt(0).Raft().VerifStatus()
		if s == last && st.Applied >= st.Commit {
			stable++
		} else {
			stable = 0
		}
		last = s
		time.Sleep(20 * time.Millisecond)
		return stable >= 10
	})
	fmt.Println("CONTENTS", last)
	// the node serves again
	ctx, cancel := context.WithTimeout(context.Background(), 10*time.Second)
	_, perr := n.dmSrv.Insert(ctx, &pb.InsertRequest{DatasetId: dsId.Bytes(), Id: rid(99).Bytes(), Value: vecOf(5)})
	cancel()
	if perr != nil && !strings.Contains(perr.Error(), "already exists") {
		fmt.Println("PROBE", perr)
	} else {
		fmt.Println("PROBE ok")
	}
	os.Stdout.Sync()
	os.Exit(0)
}

func runKill9(c *Ctx) {
	c.Stats.Rule = "one real OS process per trial runs a deterministic write script on an on-disk single-node stack and reports acknowledgements; the parent SIGKILLs it after a random delay (a few ms to ~1 s after the first acknowledgement, or while idle after the script); a second process over the same directory replays and prints its contents; non-trivial = killed while the script was still running; distinct = (script seed, number of acknowledged writes at the kill)"
	rng := NewRng(c.Seed)
	trials := c.ArgInt("trials", c.Pick(6, 60))
	base := os.Getenv("VERIF_TMP")
	if base == "" {
		base = os.TempDir()
	}
	for t := 0; t < trials; t++ {
		r := rng.Fork()
		seed := r.U64() % 100000
		nops := 20000 // far more than can be executed before the kill
		delay := time.Duration(2+r.Intn(c.Pick(700, 1500))) * time.Millisecond
		dir, err := os.MkdirTemp(base, "verif-kill9-")
		if err != nil {
			panic(err)
		}
		c.Begin(fmt.Sprintf("kill9 script=%d ops=%d", seed, nops))
		script := kill9Script(seed, nops)
		cmd := exec.Command(os.Args[0], "child", "-seed", "0", "kill9-writer", dir, fmt.Sprint(seed), fmt.Sprint(nops))
		stdout, _ := cmd.StdoutPipe()
		cmd.Stderr = io.Discard
		if err := cmd.Start(); err != nil {
			panic(err)
		}
		lines := make(chan string, 1024)
		go func() {
			sc := bufio.NewScanner(stdout)
			for sc.Scan() {
				lines <- sc.Text()
			}
			close(lines)
		}()
		acked := -1
		dsId := ""
		unanswered := -1
		ended := false
		var killAt <-chan time.Time
		setupDeadline := time.After(90 * time.Second)
		alive := true
		for alive {
			select {
			case l, ok := <-lines:
				if !ok {
					alive = false
					break
				}
				f := strings.Fields(l)
				switch {
				case len(f) >= 2 && f[0] == "READY":
					dsId = f[1]
				case len(f) >= 2 && f[0] == "ACK":
					acked, _ = strconv.Atoi(f[1])
					if killAt == nil {
						killAt = time.After(delay)
					}
				case len(f) >= 2 && f[0] == "UNANSWERED":
					unanswered, _ = strconv.Atoi(f[1])
				case len(f) >= 1 && f[0] == "SCRIPT-END":
					ended = true
					if killAt == nil {
						killAt = time.After(10 * time.Millisecond)
					}
				case len(f) >= 1 && f[0] == "SETUP-FAILED":
					c.Note("kill9 setup failed: %s", l)
					cmd.Process.Kill()
					alive = false
				}
			case <-killAt:
				cmd.Process.Kill() // SIGKILL
				alive = false
			case <-setupDeadline:
				if dsId == "" {
					c.Note("kill9 writer did not get ready within 90 s")
					cmd.Process.Kill()
					alive = false
				}
			}
		}
		cmd.Wait()
		// lines that were already written when the process died
		for l := range lines {
			f := strings.Fields(l)
			if len(f) >= 2 && f[0] == "ACK" {
				acked, _ = strconv.Atoi(f[1])
			}
			if len(f) >= 2 && f[0] == "UNANSWERED" {
				unanswered, _ = strconv.Atoi(f[1])
			}
		}
		if dsId == "" {
			c.Count("setup-failed")
			os.RemoveAll(dir)
			c.End()
			continue
		}
		// the model's view
		c.Op("new 2")
		c.Res("ok")
		ref := map[int]crefItem{}
		for i := 0; i <= acked && i < len(script); i++ {
			if script[i].kind == "snap" {
				c.OpLocal("snap")
				continue
			}
			applyRef(ref, script[i])
			c.Op("ack %s", script[i].line)
			c.Res("ok")
		}
		var inflight *crashOp
		next := acked + 1
		for next < len(script) && script[next].kind == "snap" {
			next++
		}
		if unanswered >= 0 && unanswered < len(script) {
			next = unanswered // the writer gave up on this one: its outcome is open
		}
		if next < len(script) && (!ended || unanswered >= 0) {
			inflight = &script[next]
			c.Op("inflight %s", inflight.line)
			c.Res("ok")
		}
		c.OpLocal("SIGKILL after %d acknowledged writes (delay %s after the first acknowledgement)", acked+1, delay)
		// restart
		out, died := runChild(150*time.Second, "kill9-reader", dir, dsId)
		os.RemoveAll(dir)
		got, probe, restartMsg := "", "", ""
		for _, l := range strings.Split(out, "\n") {
			if strings.HasPrefix(l, "CONTENTS ") {
				got = strings.TrimPrefix(l, "CONTENTS ")
			}
			if strings.HasPrefix(l, "PROBE ") {
				probe = strings.TrimPrefix(l, "PROBE ")
			}
			if strings.HasPrefix(l, "RESTART ") {
				restartMsg = l
			}
		}
		if died || got == "" {
			reason := ""
			for _, l := range strings.Split(out, "\n") {
				if strings.HasPrefix(l, "panic:") || strings.HasPrefix(l, "fatal error:") || strings.HasPrefix(l, "log.Fatal in the code under test") {
					reason = l
					break
				}
			}
			c.Violate("C03", "C03/restart-after-kill-fails", fmt.Sprintf("after SIGKILL with %d acknowledged writes the node does not come back: %s %s | %s", acked+1, restartMsg, reason, lastLines(out, 6)), c.History())
			c.End()
			continue
		}
		cand := []string{refText(ref)}
		if inflight != nil {
			r2 := copyRef(ref)
			applyRef(r2, *inflight)
			cand = append(cand, refText(r2))
		}
		j := -1
		for i, s := range cand {
			if s == got {
				j = i
			}
		}
		if j < 0 {
			what := fmt.Sprintf("SIGKILL after %d acknowledged writes, restart, replay: the node holds [%s]; the acknowledged history gives [%s]", acked+1, got, cand[0])
			if inflight != nil {
				what += fmt.Sprintf(", or with the in-flight write %q [%s]", inflight.line, cand[len(cand)-1])
			}
			c.Violate("C03", "C03/recovered-differs-after-kill", what, c.History())
			j = 0
		}
		if j > 1 {
			j = 1
		}
		c.Op("recover %d", j)
		c.Res("%s", got)
		if probe != "ok" {
			c.Violate("C03", "C03/no-writes-after-recovery", "after SIGKILL and restart a fresh insert fails: "+probe, c.History())
		}
		if !ended {
			c.Nontrivial("killed-mid-script")
		}
		c.Count(fmt.Sprintf("acked-at-kill:%d-%d", (acked+1)/100*100, (acked+1)/100*100+99))
		c.End()
	}
	if c.Stats.Hist["setup-failed"]*4 > trials {
		c.Note("%d of %d kill9 trials could not be set up", c.Stats.Hist["setup-failed"], trials)
		c.close()
		os.Exit(3)
	}
}
