package main

// Engine pq (C19): random push/pop/peek/reverse/ToSlice/len sequences over several live
// utils.PriorityQueue objects with many equal priorities. The Lean model of
// container/heap + the repo's Less/Swap/Push/Pop reproduces every answer exactly (same
// algorithm, so tie order and slice layout match). Oracle: a reference bag per queue.

import (
	"fmt"
	"math"
	"strings"

	"github.com/marekgalovic/anndb/utils"
)

func init() { register("pq", runPQ) }

type refQ struct {
	isMin bool
	bag   map[int]uint32 // value id -> priority bits
}

func pqItems(q utils.PriorityQueue) string {
	var ss []string
	for _, it := range q.ToSlice() {
		ss = append(ss, fmt.Sprintf("%d/%d", cb(it.Priority()), it.Value().(int)))
	}
	return "items " + strings.Join(ss, " ")
}

func runPQ(c *Ctx) {
	c.Stats.Rule = "random sequences of new/push/pop/peek/reverse/slice/len over up to 6 live queues, priorities from a small universe (ties); a history is non-trivial when it pops from a queue holding >=3 items with a tie, or uses a queue after it was reversed; distinct = distinct op sequence"
	nh := c.ArgInt("hist", c.Pick(300, 6000))
	maxOps := c.ArgInt("ops", c.Pick(60, 200))
	rng := NewRng(c.Seed)
	// corpus first: the D6 witness (reverse must not disturb the source queue)
	corpus := [][]string{
		{"new max", "push 0 9", "push 0 7", "push 0 5", "push 0 4", "push 0 3", "push 0 2", "push 0 1", "reverse 0", "pop 1", "pop 0", "pop 0", "pop 0", "pop 0", "pop 0", "pop 0", "pop 0"},
		{"new min", "push 0 1", "push 0 1", "push 0 2", "reverse 0", "push 1 0", "pop 0", "pop 0", "pop 0", "slice 1"},
		{"newi min 3 1 2", "peek 0", "pop 0", "pop 0", "pop 0"},
	}
	nextVal := 0
	runOne := func(label string, script []string, r *Rng) {
		c.Begin(label)
		var qs []utils.PriorityQueue
		var refs []*refQ
		nOps := 0
		if script != nil {
			nOps = len(script)
		} else {
			nOps = 5 + r.Intn(maxOps)
		}
		univ := 0
		if r != nil {
			univ = 2 + r.Intn(12)
		}
		for i := 0; i < nOps; i++ {
			var op string
			if script != nil {
				op = script[i]
			} else {
				k := r.Intn(100)
				switch {
				case len(qs) == 0 || (k < 4 && len(qs) < 6):
					kind := "min"
					if r.Intn(2) == 0 {
						kind = "max"
					}
					if r.Intn(3) == 0 { // constructor with initial items
						op = "newi " + kind
						for j, n := 0, r.Intn(6); j < n; j++ {
							op += fmt.Sprintf(" %d", r.Intn(univ))
						}
					} else {
						op = "new " + kind
					}
				case k < 50:
					op = fmt.Sprintf("push %d %d", r.Intn(len(qs)), r.Intn(univ))
				case k < 78:
					op = fmt.Sprintf("pop %d", r.Intn(len(qs)))
				case k < 84:
					op = fmt.Sprintf("peek %d", r.Intn(len(qs)))
				case k < 90 && len(qs) < 6:
					op = fmt.Sprintf("reverse %d", r.Intn(len(qs)))
				case k < 95:
					op = fmt.Sprintf("slice %d", r.Intn(len(qs)))
				default:
					op = fmt.Sprintf("len %d", r.Intn(len(qs)))
				}
			}
			f := strings.Fields(op)
			var qi, pv int
			if len(f) > 1 {
				fmt.Sscan(f[1], &qi)
			}
			if len(f) > 2 {
				fmt.Sscan(f[2], &pv)
			}
			c.Count("op:" + f[0])
			switch f[0] {
			case "new":
				c.Op("new %s", f[1])
				if f[1] == "min" {
					qs = append(qs, utils.NewMinPriorityQueue())
				} else {
					qs = append(qs, utils.NewMaxPriorityQueue())
				}
				refs = append(refs, &refQ{f[1] == "min", map[int]uint32{}})
				c.Res("q %d", len(qs)-1)
			case "newi":
				var items []*utils.PriorityQueueItem
				line := "newi " + f[1]
				ref := &refQ{f[1] == "min", map[int]uint32{}}
				for _, w := range f[2:] {
					var x int
					fmt.Sscan(w, &x)
					nextVal++
					p := prio(x, nextVal)
					items = append(items, utils.NewPriorityQueueItem(p, nextVal))
					line += fmt.Sprintf(" %d %d", cb(p), nextVal)
					ref.bag[nextVal] = cb(p)
				}
				c.Op("%s", line)
				if f[1] == "min" {
					qs = append(qs, utils.NewMinPriorityQueue(items...))
				} else {
					qs = append(qs, utils.NewMaxPriorityQueue(items...))
				}
				refs = append(refs, ref)
				c.Res("q %d", len(qs)-1)
				if len(items) >= 2 {
					c.Nontrivial("ctor-with-items")
				}
			case "push":
				nextVal++
				p := prio(pv, nextVal)
				c.Op("push %d %d %d", qi, cb(p), nextVal)
				qs[qi].Push(utils.NewPriorityQueueItem(p, nextVal))
				refs[qi].bag[nextVal] = cb(p)
				c.Res("ok")
			case "pop", "peek":
				c.Op("%s %d", f[0], qi)
				if qs[qi].Len() == 0 {
					func() {
						defer func() {
							if recover() != nil {
								c.Res("panic")
							} else {
								c.Res("nopanic")
							}
						}()
						if f[0] == "pop" {
							qs[qi].Pop()
						} else {
							qs[qi].Peek()
						}
					}()
					if len(refs[qi].bag) != 0 {
						c.Violate("C19", "C19/bag-lost", "queue reports empty although items were pushed and not popped", c.History())
					}
					continue
				}
				var it *utils.PriorityQueueItem
				if f[0] == "pop" {
					it = qs[qi].Pop()
				} else {
					it = qs[qi].Peek()
				}
				pb, v := cb(it.Priority()), it.Value().(int)
				c.Res("item %d/%d", pb, v)
				// oracle: the item is in the bag, with that priority, and is extremal
				ref := refs[qi]
				want, ok := ref.bag[v]
				if !ok || want != pb {
					c.Violate("C19", "C19/pop-not-in-bag", fmt.Sprintf("%s returned %d/%d which is not among the pushed-minus-popped items", f[0], pb, v), c.History())
				}
				ties := 0
				for _, q := range ref.bag {
					if (ref.isMin && q < pb) || (!ref.isMin && q > pb) {
						c.Violate("C19", "C19/pop-out-of-order", fmt.Sprintf("%s returned priority bits %d but the queue holds a better one (%d)", f[0], pb, q), c.History())
						break
					}
					if q == pb {
						ties++
					}
				}
				if len(ref.bag) >= 3 && ties >= 2 {
					c.Nontrivial("pop-with-tie")
				}
				if f[0] == "pop" {
					delete(ref.bag, v)
				}
			case "reverse":
				c.Op("reverse %d", qi)
				nq := qs[qi].Reverse()
				qs = append(qs, nq)
				nb := map[int]uint32{}
				for k, v := range refs[qi].bag {
					nb[k] = v
				}
				refs = append(refs, &refQ{!refs[qi].isMin, nb})
				c.Res("q %d", len(qs)-1)
				c.Nontrivial("reverse")
				if nq.Len() != len(nb) {
					c.Violate("C19", "C19/reverse-bag", "reversed queue does not hold the same number of items", c.History())
				}
			case "slice":
				c.Op("slice %d", qi)
				c.Res("%s", pqItems(qs[qi]))
			case "len":
				c.Op("len %d", qi)
				c.Res("len %d", qs[qi].Len())
				if qs[qi].Len() != len(refs[qi].bag) {
					c.Violate("C19", "C19/len", "Len differs from pushed-minus-popped", c.History())
				}
			}
		}
		// drain every queue: the full pop order must be sorted and match the bag exactly
		for qi := range qs {
			ref := refs[qi]
			var last uint32
			first := true
			n := 0
			for qs[qi].Len() > 0 {
				c.Op("pop %d", qi)
				it := qs[qi].Pop()
				pb, v := cb(it.Priority()), it.Value().(int)
				c.Res("item %d/%d", pb, v)
				if want, ok := ref.bag[v]; !ok || want != pb {
					c.Violate("C19", "C19/pop-not-in-bag", "drain returned an item that is not in the bag", c.History())
				}
				delete(ref.bag, v)
				if !first && ((ref.isMin && pb < last) || (!ref.isMin && pb > last)) {
					c.Violate("C19", "C19/pop-out-of-order", fmt.Sprintf("drain of queue %d popped %d after %d", qi, pb, last), c.History())
				}
				last, first = pb, false
				n++
			}
			if len(ref.bag) != 0 {
				c.Violate("C19", "C19/bag-lost", fmt.Sprintf("queue %d drained with %d items of the bag never popped", qi, len(ref.bag)), c.History())
			}
		}
		c.End()
	}
	for i, s := range corpus {
		runOne(fmt.Sprintf("corpus%d", i), s, nil)
	}
	// large queues: grow to several hundred / a few thousand items, drain far below that, grow again —
	// the sizes at which a backing array is reallocated (or shrunk) are crossed in both directions
	for li, nl := 0, c.Pick(3, 30); li < nl; li++ {
		r := rng.Fork()
		kind := "min"
		if li%2 == 1 {
			kind = "max"
		}
		n := 300 + r.Intn(c.Pick(1500, 6000))
		script := []string{"new " + kind}
		for i := 0; i < n; i++ {
			script = append(script, fmt.Sprintf("push 0 %d", r.Intn(5000)))
		}
		script = append(script, "len 0")
		for i := 0; i < n-n/9; i++ {
			script = append(script, "pop 0")
			if i%97 == 0 {
				script = append(script, "len 0", "peek 0")
			}
			if i%11 == 0 {
				script = append(script, fmt.Sprintf("push 0 %d", r.Intn(5000)))
			}
		}
		script = append(script, "slice 0", "reverse 0", "len 1")
		for i := 0; i < n/3; i++ {
			script = append(script, fmt.Sprintf("push 0 %d", r.Intn(5000)))
		}
		for i := 0; i < n; i++ {
			script = append(script, "pop 0")
		}
		script = append(script, "len 0", "pop 1", "pop 1", "len 1")
		runOne(fmt.Sprintf("large%d", li), script, nil)
		c.Nontrivial("large-queue")
	}

	for h := 0; h < nh; h++ {
		runOne("rand", nil, rng.Fork())
	}
}

// prio: priorities are multiples of 0.5; every other zero is the *negative* zero: equal to 0, so a legal
// non-negative priority (Push accepts it) that must order exactly like +0 although its bit pattern is
// 0x80000000
func prio(x, serial int) float32 {
	if x == 0 && serial%2 == 0 {
		return float32(math.Copysign(0, -1))
	}
	return float32(x) * 0.5
}

// cb: the bits of a priority with both zeros written as +0 (the model orders values, and -0 = +0)
func cb(p float32) uint32 {
	if p == 0 {
		return 0
	}
	return math.Float32bits(p)
}
