module verifharness

go 1.14

require (
	github.com/marekgalovic/anndb v0.0.0
	github.com/satori/go.uuid v1.2.0
)

replace github.com/marekgalovic/anndb => /repo
