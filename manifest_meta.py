"""Texts for MANIFEST.json (kept apart from props.py so that check configuration stays small)."""

HOOK_COMMITS = []

ENGINES = [
    dict(name="pq", path="harness/cmd/h/eng_pq.go", serves_properties=["C19"],
         kind_free_text="differential: real utils.PriorityQueue vs Lean model of container/heap, exact transcripts; bag oracle"),
]

NOT_APPLICABLE = {}

META = {
    "C19": dict(
        technique="Lean 4 proof (heap invariant by induction over op sequences; bag refinement) + exact differential tie to utils.PriorityQueue + regenerated shape fact",
        text="Theorems in lean/Anndb/Props/C19.lean hold for every push/pop/reverse sequence, every priority (ties) and size: heap order is an invariant (inv_run), pop returns an extremal element of the bag and removes exactly it (pop_bag_best), draining is sorted and a permutation of the bag (drain_sorted_perm), reverse keeps the bag and flips the order (reverse_bag, reverse_independent). The model is container/heap's up/down/Init/Push/Pop verbatim; engine pq checks that the real queue and the model answer identically (tie order and slice layout included) on generated sequences, and a bag oracle judges the real answers directly.",
        note="Trusted: Lean kernel; Go runtime/container/heap callers; the pq engine's generator coverage; goextract's reading of Reverse (make+copy). Independence of the reversed queue is a theorem about the copying model; that the code copies is the regenerated fact pqReverseCopies plus the differential run.",
    ),
}
