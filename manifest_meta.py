"""Texts for MANIFEST.json (kept apart from props.py so that check configuration stays small)."""

HOOK_COMMITS = ["8eb6fb7e966ea020d53ffa53eb464d5e25f195d3"]

ENGINES = [
    dict(name="wal", path="harness/cmd/h/eng_wal.go", serves_properties=["C06"],
         kind_free_text="four-way differential: real badgerWAL (on-disk Badger, 1-3 groups, reopens incl. whole-DB close), real etcd MemoryStorage, Lean model of each; all observations after every call; isolation summaries of the other groups"),
    dict(name="codec", path="harness/cmd/h/eng_codec.go", serves_properties=["C08"],
         kind_free_text="differential: real Hnsw.Save bytes vs the Lean byte-format model (decode, re-encode, view, bounds); Load(Save(s)) oracle through 5 fragmenting reader kinds into fresh/used targets with a sentinel tail; truncation accept/reject agreement"),
    dict(name="routing", path="harness/cmd/h/eng_routing.go", serves_properties=["C10"],
         kind_free_text="differential: utils.UuidMod and Dataset routing (single-item and batch path) vs the Lean model on edge/random ids x moduli 1..1024 and powers of two"),
    dict(name="placement", path="harness/cmd/h/eng_placement.go", serves_properties=["C16"],
         kind_free_text="exhaustive sweep N<=16,R<=8,P in {1,2,7,64} + multi-step membership histories on the real Allocator/Conn; validity predicate evaluated by the Lean driver; aliasing and independence oracle"),
    dict(name="partition", path="harness/cmd/h/eng_partition.go", serves_properties=["C02", "C04"],
         kind_free_text="differential: real partition state machine (marshalled entries) vs finite-map specification and graph model; snapshot/restore at every cut; reference-map oracle"),
    dict(name="hnsw", path="harness/cmd/h/eng_hnsw.go", serves_properties=["C01", "C07"],
         kind_free_text="differential: real index.Hnsw vs Lean model, whole graph after every op in the order-independent regime; reference-map oracle + structural invariant in the wide regime"),
    dict(name="pq", path="harness/cmd/h/eng_pq.go", serves_properties=["C19"],
         kind_free_text="differential: real utils.PriorityQueue vs Lean model of container/heap, exact transcripts; bag oracle"),
]

NOT_APPLICABLE = {}

META = {
    "C01": dict(
        technique="Lean 4 proof (index invariant by induction over insert/remove/save+load histories; search soundness over abstract lawful queues, instantiated at the proved model of container/heap) + exact whole-graph differential tie",
        text="search_ok_reachable (lean/Anndb/Props/C01.lean): for every history of inserts, removes (hence updates) and snapshot reloads from the empty index, every query and k, every configuration, every distance function and every lawful queue, search returns only live items with their current metadata and dist(query, current vector) as score, ascending, duplicate-free, at most k, non-empty on a non-empty index. good_run: the invariant (entry point present iff non-empty and live; tombstone iff not current incarnation) holds in every reachable state. The model is index/hnsw.go line by line; engine hnsw demands the identical graph and results from the real index after every operation in the order-independent regime and runs the property's predicate plus the structural invariant directly on the real index in the wide regime (ties, small beams, extension, M=16).",
        note="Trusted: Lean kernel; goextract; the hnsw engine's generators; Go runtime. Not modelled: concurrent use (C13); NaN scores. The dataset-level merge is C09's.",
    ),
    "C02": dict(
        technique="Lean 4 refinement proof (partition state machine over the HNSW model refines a finite map, counters in UInt64) + exact differential tie on marshalled log entries",
        text="partition_refines_map (lean/Anndb/Props/C02.lean): for every log of the six change kinds from the empty partition, every notified outcome equals the finite-map specification's and the final state refines it; len_eq_live and bytes_exact give the counters (UInt64, subtraction as written in the code) = number of live ids and exactly the live items' data bytes with no wrap; spec_* lemmas state what the map does (insert/exists, remove/update not found, merge with new keys winning). The proof goes through effect lemmas showing that all HNSW linking is invisible through the abstraction id -> (vector, metadata, level). Engine partition demands identical outcome / Len / raw byte counter / contents from the real partition after every marshalled entry, and the identical graph in the order-independent regime.",
        note="Trusted: Lean kernel; protobuf round-trip; generators. Not modelled: the float link estimate in BytesSize (bounded check in the harness); aliasing of Go metadata maps (the model's metadata is immutable — mutation of a stored vertex's map is caught by the raw byte-counter comparison).",
    ),
    "C04": dict(
        technique="Lean 4 proof (determinism corollaries of the refinement: outcomes and contents are functions of the abstract map; snapshot = reload preserves the refinement) + multi-replica differential run with restore at every cut",
        text="replicas_agree / snapshot_cut / restart_replay (lean/Anndb/Props/C04.lean): any two replicas related to the same map — differing in queue implementation, metric, parameters, fallback choice and graph — report the same outcome for every entry and hold the same contents and counters; restoring a snapshot taken at any cut and applying the suffix equals applying the whole log. Engine partition feeds byte-identical marshalled entries to real stand-alone partitions, restoring the real snapshot at every cut into fresh and used replicas, and compares outcomes, contents and counters pairwise and against the model.",
        note="Trusted: as C02; Hnsw.Save/Load's byte format is C08's subject — here its effect on the state is Index.reload, and the real Save/Load is exercised at every cut.",
    ),
    "C06": dict(
        technique="Lean 4 proofs (key-layout injectivity and prefix disjointness; group isolation for any write batch; store model refines the MemoryStorage specification) + four-way exact differential run: real badgerWAL / real etcd MemoryStorage / both Lean models",
        text="entryKey_inj, kinds_disjoint, entry_prefix_disjoint, meta_prefix_disjoint, isolation_batch (lean/Anndb/Props/C06.lean): keys of distinct groups and kinds never collide, prefix iteration stays inside the group (excluded point stated), and any write batch of one group leaves every key of every other group unchanged. The per-group store model (Model/Wal.lean: committed keys, the three-field cache, batches applied at flush while reads see the committed state) and the specification model of etcd's MemoryStorage are run by engine wal against the real badgerWAL and the real MemoryStorage: all four transcripts (FirstIndex, LastIndex, Term of every index, every legal Entries range under three size limits, Snapshot, InitialState after every call; reopen and DeleteGroup anywhere; 1-3 groups in one database) must be identical.",
        note="Trusted: Lean kernel; Badger's atomic batch and ordered prefix iteration; generators. The refinement theorem store-model ⊑ MemoryStorage-model is staged in Proofs/WalRefine.lean (see DESIGN.md for what is proved so far); until it is complete the equality of the two models is established by the differential run, not by proof.",
    ),
    "C08": dict(
        technique="Lean 4 round-trip proof of the byte format (combinator lemmas; exact consumption; header) + allocation bound + regenerated no-bare-Read fact + differential decode of real Save output and Load(Save) oracle over fragmenting readers",
        text="roundtrip / roundtrip_nonempty / roundtrip_with_header (lean/Anndb/Props/C08.lean): for every file within the explicit bounds File.wf, decode (encode f ++ rest) = (f, rest) — loading one's own output never fails and consumes exactly what was written; shard_count_bounded: a count read from the stream never exceeds the bytes that follow, so allocations are bounded by the input; no_bare_reads / length_field_widths are regenerated from the loader sources (fragmentation cannot matter when every read is a ReadFull). Engine codec decodes the real Save output of reached states (empty, after removals, hand-overs, exotic metadata incl. non-UTF8, with and without header) under the model — all bytes consumed, byte-identical re-encoding, bounds satisfied, same view as the dumped state — and loads it back through five reader kinds into fresh and used indexes, checking state, counters, entry point and that exactly the appended tail is left unread.",
        note="Trusted: Lean kernel; goextract; encoding/binary. The mapping between an index state and the records written is tied by the differential run (decoded view = dumped state; loaded state = saved state), not by a Lean theorem; its effect on the graph model is Index.reload (C01/C04).",
    ),
    "C10": dict(
        technique="Lean 4 proof over UInt64 (totality, no-overflow spec) with the routing function regenerated from source by a translator and tied by rfl + call-site facts + differential run on UuidMod and on both Dataset routing paths",
        text="uuidMod_lt / uuidMod_spec (lean/Anndb/Props/C10.lean): for every 128-bit id and every partition count n in 1..2^63 the owner is < n and equals (lo + hi) mod n without overflow; code_is_model ties the expression translated from utils/uuid.go on this run to the model by rfl; single_routing_function (regenerated call-site facts) says UuidMod is called only from getPartitionForId and that single insert/update/remove and the batch grouping all go through it; group_by_owner / group_disjoint / group_covers: batch grouping partitions the batch by owner. Engine routing compares utils.UuidMod and real Dataset objects' single-item and batch routing with the model.",
        note="Trusted: Lean kernel; goextract; binary.LittleEndian. The cluster-level consequence (an item written through any node lands on the owner's replicas only) additionally needs the proxy paths to forward the item id unchanged; that is exercised by the cluster engine (see C11).",
    ),
    "C16": dict(
        technique="Lean 4 proof over an oracle-permutation model of the shuffle (count, distinctness, membership, independence; aliasing variant refuted) + regenerated shape facts + exhaustive sweep of the real allocator",
        text="place_len / place_nodup / place_members / place_independent (lean/Anndb/Props/C16.lean) hold for every member list, R, partition count and every family of shuffles (the shuffle is an oracle permutation); alias_all_equal proves that the re-slicing variant puts every partition on the same nodes. code_copies_prefix and code_nodeids_fresh are regenerated from storage/allocator.go and cluster/conn.go on every run. Engine placement sweeps all N<=16, R<=8, P in {1,2,7,64} and random join/leave/place histories on the real Allocator and Conn; the Lean driver evaluates the model's validity predicate on every observed placement and the oracle checks aliasing (backing-array addresses) and independence.",
        note="Trusted: Lean kernel; rand.Shuffle yields a permutation; goextract's reading of the two functions. The distribution tests are tests, not theorems.",
    ),
    "C19": dict(
        technique="Lean 4 proof (heap invariant by induction over op sequences; bag refinement) + exact differential tie to utils.PriorityQueue + regenerated shape fact",
        text="Theorems in lean/Anndb/Props/C19.lean hold for every push/pop/reverse sequence, every priority (ties) and size: heap order is an invariant (inv_run), pop returns an extremal element of the bag and removes exactly it (pop_bag_best), draining is sorted and a permutation of the bag (drain_sorted_perm), reverse keeps the bag and flips the order (reverse_bag, reverse_independent). The model is container/heap's up/down/Init/Push/Pop verbatim; engine pq checks that the real queue and the model answer identically (tie order and slice layout included) on generated sequences, and a bag oracle judges the real answers directly.",
        note="Trusted: Lean kernel; Go runtime/container/heap callers; the pq engine's generator coverage; goextract's reading of Reverse (make+copy). Independence of the reversed queue is a theorem about the copying model; that the code copies is the regenerated fact pqReverseCopies plus the differential run.",
    ),
}
