"""Per-property configuration of ./check: theorem module, engines (with per-tier arguments),
extra trusted-base entries and assumptions recorded in the evidence."""

GO_RUNTIME = "Go runtime and standard library (sync, channels, container/heap's callers, encoding/binary) assumed correct"

PROPS = {
    "C19": dict(
        module="Anndb.Props.C19",
        engines=[dict(name="pq", quick=["hist=400"], thorough=["hist=8000", "ops=240"])],
        trusted=["model of container/heap (Model/Heap.lean) is tied to the real utils.PriorityQueue by exact transcript equality (engine pq)",
                 "shape fact Generated.pqReverseCopies (Reverse allocates with make+copy)"],
        assumptions=[GO_RUNTIME, "priorities are non-negative non-NaN float32 (Push panics on negative); order of such floats = order of their bit patterns"],
    ),
}
