"""Per-property configuration of ./check: theorem module, engines (with per-tier arguments),
extra trusted-base entries and assumptions recorded in the evidence."""

GO_RUNTIME = "Go runtime and standard library (sync, channels, container/heap's callers, encoding/binary) assumed correct"

IEEE = "for non-negative non-NaN float32 the order of values is the order of their bit patterns; scores are carried as bit patterns; floating-point rounding is not reasoned about"

PROPS = {
    "C01": dict(
        module="Anndb.Props.C01",
        engines=[dict(name="hnsw", quick=["exact=150", "wide=150"], thorough=["exact=2500", "wide=3000", "ops=160"])],
        trusted=["model of index/hnsw.go (Model/Hnsw.lean) tied to the real index by exact whole-graph transcript equality in the order-independent regime (engine hnsw)",
                 "space.Distance is a parameter `dist` of every theorem; the harness tabulates it with the real implementation"],
        assumptions=[GO_RUNTIME, IEEE, "sequential use of the index (concurrency is C13)",
                     "dataset-level clause (merge across partitions) is carried by C09's merge theorems and C10's disjoint ownership"],
    ),
    "C19": dict(
        module="Anndb.Props.C19",
        engines=[dict(name="pq", quick=["hist=400"], thorough=["hist=8000", "ops=240"])],
        trusted=["model of container/heap (Model/Heap.lean) is tied to the real utils.PriorityQueue by exact transcript equality (engine pq)",
                 "shape fact Generated.pqReverseCopies (Reverse allocates with make+copy)"],
        assumptions=[GO_RUNTIME, "priorities are non-negative non-NaN float32 (Push panics on negative); order of such floats = order of their bit patterns"],
    ),
}
