"""Per-property configuration of ./check: theorem module, engines (with per-tier arguments),
extra trusted-base entries and assumptions recorded in the evidence."""

GO_RUNTIME = "Go runtime and standard library (sync, channels, container/heap's callers, encoding/binary) assumed correct"

IEEE = "for non-negative non-NaN float32 the order of values is the order of their bit patterns; scores are carried as bit patterns; floating-point rounding is not reasoned about"

PROPS = {
    "C01": dict(
        module="Anndb.Props.C01",
        engines=[dict(name="hnsw", quick=["exact=150", "wide=150"], thorough=["exact=2500", "wide=3000", "ops=160"]),
                 dict(name="partition", quick=["hist=80"], thorough=["hist=1000", "ops=120"])],
        trusted=["model of index/hnsw.go (Model/Hnsw.lean) tied to the real index by exact whole-graph transcript equality in the order-independent regime (engine hnsw)",
                 "space.Distance is a parameter `dist` of every theorem; the harness tabulates it with the real implementation"],
        assumptions=[GO_RUNTIME, IEEE, "sequential use of the index (concurrency is C13)",
                     "dataset-level clause (merge across partitions) is carried by C09's merge theorems and C10's disjoint ownership"],
    ),
    "C02": dict(
        module="Anndb.Props.C02",
        engines=[dict(name="partition", quick=["hist=120"], thorough=["hist=1500", "ops=120"])],
        trusted=["model of storage/partition.go's apply path (Model/Partition.lean) tied to the real partition by exact transcript equality: outcome, Len, raw byte counter, contents after every entry; whole graph in the order-independent regime (engine partition)",
                 "protobuf marshal/unmarshal of PartitionChange round-trips (the harness feeds real marshalled entries)"],
        assumptions=[GO_RUNTIME, IEEE, "metadata keys/values in the differential run are ASCII (protobuf string fields must be UTF-8); non-UTF8 metadata is exercised at the index layer by C08",
                     "the floating-point link estimate inside Hnsw.BytesSize is not modelled: the harness checks reported - data in [0, len*100000]"],
    ),
    "C04": dict(
        module="Anndb.Props.C04",
        engines=[dict(name="partition", quick=["hist=120"], thorough=["hist=1500", "ops=120"])],
        trusted=["same model and tie as C02; the effect of snapshot Save+Load on the graph is Index.reload, whose byte-level counterpart is C08's codec",
                 "three real stand-alone partitions fed byte-identical entries, one restoring a snapshot at every cut (into a fresh or a used replica)"],
        assumptions=[GO_RUNTIME, "graph equality between replicas is not claimed (legitimately non-deterministic); contents, counters and outcomes are"],
    ),
    "C06": dict(
        module="Anndb.Props.C06",
        engines=[dict(name="wal", quick=["seq=150"], thorough=["seq=4000", "steps=45"])],
        trusted=["Badger: a WriteBatch flush / db.Update is an atomic durable map update; prefix iteration returns the keys with that prefix in byte order",
                 "model of storage/wal/badger.go (Model/Wal.lean) tied to the real badgerWAL, and the specification Mem tied to etcd's real MemoryStorage, by exact transcript equality of every observation after every call (engine wal)",
                 "shape facts: key layout constants"],
        assumptions=[GO_RUNTIME, "call sequences are the legal ones of DESIGN C06 (contiguous batches starting at most one past the last index, snapshots newer than the current one, ConfState non-nil)",
                     "group ids do not start with the bytes 'hs'/'ss' followed by the first 14 bytes of another group's id (meta_prefix_disjoint states the excluded point)"],
    ),
    "C08": dict(
        module="Anndb.Props.C08",
        engines=[dict(name="codec", quick=["states=120"], thorough=["states=2500"]),
                 dict(name="hnsw", quick=["exact=60", "wide=60", "props=C08"], thorough=["exact=800", "wide=800", "props=C08"])],
        trusted=["byte-format model (Model/Codec.lean) tied to the real Save by decode/re-encode/view equality on every saved stream, and to the real Load by accept/reject agreement on truncated streams (engine codec)",
                 "shape facts Generated.codecBareReads (no bare Read in the loaders) and the metadata length-field widths",
                 "encoding/binary, io.ReadFull, bytes.Buffer"],
        assumptions=[GO_RUNTIME, "metadata within the format's bounds (<= 65535 entries, keys <= 255 bytes, values <= 65535 bytes); beyond them the length fields truncate (known finding C08/metadata-length-truncation)",
                     "real memory consumption is not measured; the bound is proved on the model's allocation counts"],
    ),
    "C09": dict(
        module="Anndb.Props.C09",
        engines=[dict(name="cluster", quick=["only=search", "searches=6"], thorough=["only=search", "searches=60"])],
        trusted=["Go channels: FIFO, buffered sends below capacity do not block, select picks any ready case (the LTS allows every choice); sync.WaitGroup",
                 "shape facts Generated.search* read from Dataset.Search / SearchPartitions / searchPartition / searchPartitionsOnNode",
                 "sort.Sort sorts (its result is a permutation in ascending Less order); which of several equal-score items survives the cut is not fixed",
                 "in-memory search clients deliver handler errors on Recv as gRPC does"],
        assumptions=[GO_RUNTIME, "nodes fail by error / timeout, not by returning malformed ids (the uuid.FromBytes error branch of searchPartitionsOnNode sends without returning; outside the fault model, recorded in DESIGN.md)",
                     "the context is not cancelled by the caller during the search"],
    ),
    "C10": dict(
        module="Anndb.Props.C10",
        engines=[dict(name="routing"), dict(name="cluster", quick=["only=writes", "writes=8"], thorough=["only=writes", "writes=150"])],
        trusted=["goextract's expression translator for utils.UuidMod (tied to the model by `rfl`) and its call-site facts",
                 "encoding/binary.LittleEndian.Uint64 reads 8 bytes little-endian (model: Routing.le64, compared on every differential case)"],
        assumptions=[GO_RUNTIME, "partition count 0 is excluded (division by zero; validation is C12's subject)"],
    ),
    "C16": dict(
        module="Anndb.Props.C16",
        engines=[dict(name="placement")],
        trusted=["rand.Shuffle produces a permutation of its input (modelled as an oracle: any permutation)",
                 "shape facts Generated.placementCopiesPrefix, Generated.connNodeIdsFresh"],
        assumptions=[GO_RUNTIME, "independence is a theorem about the model (each partition's nodes are a function of its own shuffle); on the real code it is supported by an aliasing check and two distribution tests with false-alarm probability below 1e-12"],
    ),
    "C19": dict(
        module="Anndb.Props.C19",
        engines=[dict(name="pq", quick=["hist=400"], thorough=["hist=8000", "ops=240"])],
        trusted=["model of container/heap (Model/Heap.lean) is tied to the real utils.PriorityQueue by exact transcript equality (engine pq)",
                 "shape fact Generated.pqReverseCopies (Reverse allocates with make+copy)"],
        assumptions=[GO_RUNTIME, "priorities are non-negative non-NaN float32 (Push panics on negative); order of such floats = order of their bit patterns"],
    ),
}
